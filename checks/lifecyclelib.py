"""Lifecycle.tla: the repository through tuftool create / update / transfer-metadata / clone / download and a
client with a persistent datastore.  Shared by C10, C17 and C19: TLC checks the model, generates behaviours
(simulation, spread over command kinds by plans), the harness replays every behaviour through the tuftool
binary and the in-process client and projects the directories after every command onto the model's state;
the property predicates are evaluated on the observed projections, any other disagreement is DRIFT."""
import json, os, re
import vlib
from vlib import tlc, make_cfg, vh, workdir, write_ndjson, read_ndjson, log

NAMES = ["a", "b"]
INVS = ["TypeOK", "ExpiredNeverTrusted", "ToolsRefuseExpired", "RefreshSeesPublished", "MonotonePublisherServes", "RefusalMeansRollback", "CloneFaithful",
        "CloneNeverWrong", "DownloadFaithful", "PublishedComplete"]


def _cfg(w, name, overrides, invariants, props=True):
    cfg = make_cfg("MC_Lifecycle.cfg", overrides, os.path.join(w, name), invariants=invariants)
    if not props:
        txt = re.sub(r"^PROPERTIES.*$", "", open(cfg).read(), flags=re.M)
        open(cfg, "w").write(txt)
    return cfg


def model_check(w, tag, steps):
    """steps commands with expirations and --allow-expired-repo; one more command without them (state space)"""
    g = tlc("MC_Lifecycle", _cfg(w, "mc.cfg", {"MaxSteps": steps}, INVS), tag + "-mc", workers=6, timeout=1700, coverage=True)
    if not g.ok:
        raise vlib.ToolError("Lifecycle.tla violates its properties:\n" + g.violation[-2000:])
    g2 = tlc("MC_Lifecycle", _cfg(w, "mc2.cfg", {"MaxSteps": steps + 1, "Expiry": "FALSE"}, INVS), tag + "-mc2", workers=6, timeout=1700)
    if not g2.ok:
        raise vlib.ToolError("Lifecycle.tla (without expirations) violates its properties:\n" + g2.violation[-2000:])
    g.distinct += g2.distinct
    g.generated += g2.generated
    return g


def generate(w, tag, seed, num, steps):
    seen, out = set(), []
    for fam, n in (("MC_GenPlans", num), ("MC_RotPlans", max(10, num // 5))):
        cfg = _cfg(w, f"gen-{fam}.cfg", {"MaxSteps": steps, "Plans": "<- " + fam}, ["Emit"], props=False)
        g = tlc("MC_Lifecycle", cfg, f"{tag}-gen-{fam}", workers=1, timeout=900, simulate=n, depth=steps + 1, seed=seed)
        for r in g.replays:
            k = json.dumps([s["cmd"] for s in r["steps"]], sort_keys=True)
            if k not in seen:
                seen.add(k)
                # every other behaviour produces the rotated root with `tuftool root` commands instead of the harness's writer
                out.append({"names": NAMES, "max_content": 2, "steps": r["steps"], "tool_roots": len(out) % 2 == 1})
    return out


def _files(lst):
    return sorted([x[0], x[1]] for x in lst)


def _model_files(fs):
    return sorted([x[0], x[1]] for x in fs)


def compare(m, o, act):
    """model's expected state vs observed projection: list of disagreements"""
    d = []
    mp, op = m["pub"], o["pub"]
    if mp["on"] != op.get("on"):
        d.append(f"pub.on model {mp['on']} observed {op.get('on')}")
    elif mp["on"]:
        if mp["ver"] != op["ver"]:
            d.append(f"pub.ver model {mp['ver']} observed {op['ver']}")
        if mp["tset"] != op["tset"]:
            d.append(f"pub.tset model {mp['tset']} observed {op['tset']}")
        if _model_files(mp["files"]) != _files(op["files"]["files"]):
            d.append(f"pub.files model {_model_files(mp['files'])} observed {_files(op['files']['files'])}")
        ex = op["extra"]
        if not (ex["ts"] == ex["sn"] == ex["tg"] == mp["extra"]):
            d.append(f"pub.extra model {mp['extra']} observed {ex}")
        oexp = {r: op["exp"][r].startswith("2001") for r in ("ts", "sn", "tg")}
        if oexp != mp["exp"]:
            d.append(f"pub.exp model {mp['exp']} observed {op['exp']}")
        if max(op["roots"] or [0]) != mp["root"]:
            d.append(f"pub.root model {mp['root']} observed {op['roots']}")
    if m["cli"] != o["cli"]:
        d.append(f"cli model {m['cli']} observed {o['cli']}")
    mc, oc = m["cl"], o["cl"]
    if mc["on"] != oc.get("on"):
        d.append(f"cl.on model {mc['on']} observed {oc.get('on')}")
    elif mc["on"]:
        if mc["ver"] != oc["ver"]:
            d.append(f"cl.ver model {mc['ver']} observed {oc['ver']}")
        if mc["meta"] != oc["tset"]:
            d.append(f"cl.meta model {mc['meta']} observed {oc['tset']}")
        if max(oc["roots"] or [0]) != mc["root"]:
            d.append(f"cl.root model {mc['root']} observed {oc['roots']}")
        readable = {x: (mc["meta"][x] if [x, mc["meta"][x]] in _model_files(mc["files"]) else 0) for x in mc["meta"]}
        if oc["client"].get("loads") and oc["client"]["read"] != readable:
            d.append(f"cl readable model {readable} observed {oc['client']['read']}")
    if _model_files(mc["files"]) != _files(oc["files"]["files"]):
        d.append(f"cl.files model {_model_files(mc['files'])} observed {_files(oc['files']['files'])}")
    md, od = m["dl"], o["dl"]
    if md["on"] != od["on"]:
        d.append(f"dl.on model {md['on']} observed {od['on']}")
    elif md["on"]:
        want = sorted([x, c] for x, c in md["tset"].items() if c)
        if want != _files(od["files"]["files"]):
            d.append(f"dl model {want} observed {_files(od['files']['files'])}")
    return d


def predicates(prev, s, names):
    """the properties evaluated on what was observed; returns {pid: [what]}"""
    out = {"C10": [], "C17": [], "C19": [], "C04": []}
    cmd, o = s["cmd"], s["obs"]
    act = cmd["act"]
    op = o["pub"]
    if act == "refresh" and op.get("on"):
        # C04 on what was observed: the enforcing client with its datastore against the dates in the written files
        oexp = {r: op["exp"][r].startswith("2001") for r in ("ts", "sn", "tg")}
        names_ = {"ts": "timestamp", "sn": "snapshot", "tg": "targets"}
        if s["ok"] and any(oexp.values()):
            out["C04"].append(f"an update cycle with enforcement on succeeded although {[names_[r] for r in oexp if oexp[r]]} expired in 2001")
        if not s["ok"] and s["out"].startswith("Expired:"):
            role = s["out"].split(":", 1)[1]
            short = {v: k for k, v in names_.items()}.get(role)
            if short is None or not oexp[short]:
                out["C04"].append(f"the cycle failed with {s['out']} although that role's metadata expires in {op['exp']}")
    if act in ("create", "update", "transfer") and s["ok"]:
        # C10: what the editor reports as signed and written loads and shows what was put in
        if op.get("problems"):
            out["C10"].append(f"after `{act}` the written metadata is inconsistent: {op['problems'][:3]}")
        c = op.get("client", {})
        if not c.get("loads"):
            out["C10"].append(f"`{act}` exited 0 but a client holding root 1 cannot load the result: {c.get('err')} {c.get('detail', '')[:120]}")
        else:
            want = cmd.get("ver", {"ts": 1, "sn": 1, "tg": 1})
            if c["ver"] != want:
                out["C10"].append(f"`{act}` was told versions {want}, the client sees {c['ver']}")
            if c["read"] != op["tset"]:
                out["C10"].append(f"after `{act}` the listed targets {op['tset']} read back as {c['read']}")
            ce = cmd.get("exp", {})
            told = {r: f"{2001 if ce.get(r) else 2090}-01-0{d}" for r, d in (("ts", 1), ("sn", 2), ("tg", 3))}
            if bool(c.get("expired")) != any(ce.get(r) for r in ("ts", "sn", "tg")):
                out["C10"].append(f"`{act}` was told expirations {told}; an enforcing client says {c.get('expired')}")
            if op.get("exp") != told:
                out["C10"].append(f"`{act}` was told expirations {told}, the written metadata has {op.get('exp')}")
            if act == "create" and sorted(x for x, v in op["tset"].items() if v) != sorted(cmd["targets"]):
                out["C10"].append(f"`create` with {cmd['targets']} lists {op['tset']}")
    if act == "update" and s["ok"] and prev is not None and prev["pub"].get("on"):
        pp = prev["pub"]
        for x in names:
            if x in cmd["add"]:
                if op["tset"].get(x) != cmd["content"]:
                    out["C17"].append(f"update adding {x} with content {cmd['content']} lists content {op['tset'].get(x)}")
            elif op["tset"].get(x) != pp["tset"].get(x):
                out["C17"].append(f"update (adding {cmd['add']}) changed target {x}: content {pp['tset'].get(x)} -> {op['tset'].get(x)}")
        for r in ("ts", "sn", "tg"):
            if pp["extra"][r] and not (op["extra"][r] and op["extra"][r + "_value_kept"]):
                out["C17"].append(f"update dropped or altered the unknown top-level member of {r}")
        gone = [f for f in _files(pp["files"]["files"]) if f not in _files(op["files"]["files"])]
        if gone:
            out["C17"].append(f"update removed target files {gone}")
    if act == "clone" and s["ok"]:
        oc = o["cl"]
        c = oc.get("client", {})
        if not oc.get("on") or not c.get("loads"):
            out["C19"].append(f"clone exited 0 but the copy does not load: {c.get('err')} {c.get('detail', '')[:120]}")
        else:
            if c["ver"] != op["ver"]:
                out["C19"].append(f"the copy loads with versions {c['ver']}, the original has {op['ver']}")
            want = [x for x in names if op["tset"].get(x)] if cmd["all"] else cmd["names"]
            for x in want:
                if c["read"].get(x) != op["tset"].get(x) or not op["tset"].get(x):
                    out["C19"].append(f"cloned target {x} reads back as content {c['read'].get(x)}, the original lists {op['tset'].get(x)}")
            top = max(oc["roots"] or [0])
            if oc["roots"] != list(range(1, top + 1)) or top != c.get("root"):
                out["C19"].append(f"root chain in the copy is {oc['roots']}, the trusted root is version {c.get('root')}")
        if oc["files"]["odd"]:
            out["C19"].append(f"unexpected or unverified files in the copy's targets directory: {oc['files']['odd'][:3]}")
        if oc["listing"]["clone"] != ["metadata", "targets"]:
            out["C19"].append(f"clone wrote outside its two directories: {oc['listing']['clone']}")
    return out


def judge(v, pid, rows, stats):
    for r in rows:
        if "error" in r:
            v.violation(f"harness panic while replaying a lifecycle: {r['error']}", r) if "panic" in r["error"] else v.note_drift(r["error"])
            continue
        names = r["in"]["names"]
        prev = None
        bad = False
        kinds = [s["cmd"]["act"] for s in r["steps"]]
        stats["behaviours"] += 1
        for i, (s, m) in enumerate(zip(r["steps"], r["in"]["steps"])):
            stats["steps"] += 1
            stats["kinds"][s["cmd"]["act"]] = stats["kinds"].get(s["cmd"]["act"], 0) + 1
            pr = predicates(prev, s, names)
            for what in pr[pid][:1]:
                v.violation(f"{what} (command {i + 1} of {kinds})", slim(r, i))
                bad = True
            if bad:
                break
            other = [w for k, ws in pr.items() if k != pid for w in ws]
            dis = compare(m["after"], s["obs"], s["cmd"]["act"])
            if s["ok"] != m["ok"]:
                dis.insert(0, f"model ok={m['ok']} ({m['err']}), observed ok={s['ok']} ({s['out'][-160:]!r})")
            elif not s["ok"] and s["cmd"]["act"] == "refresh" and s["out"] != m["err"]:
                dis.insert(0, f"refresh refused with {s['out']}, model says {m['err']}")
            if dis or other:
                v.note_drift(f"lifecycle command {i + 1} of {kinds}: {(other + dis)[:2]}")
                stats["drift"] += 1
                break
            prev = s["obs"]
        else:
            stats["conform"] += 1
            if pid == "C17" and any(s["cmd"]["act"] == "update" and p["after"]["pub"]["extra"] for s, p in zip(r["steps"], r["in"]["steps"])):
                stats["nontrivial"] += 1
            elif pid == "C19" and "clone" in kinds:
                stats["nontrivial"] += 1
            elif pid == "C10":
                stats["nontrivial"] += 1
            elif pid == "C04" and any(s["cmd"]["act"] == "refresh" and p["before"] for s, p in zip(r["steps"], r["in"]["steps"])):
                stats["nontrivial"] += 1


def slim(r, upto):
    return {"in": {"names": r["in"]["names"], "max_content": r["in"]["max_content"], "steps": r["in"]["steps"][: upto + 1], "tool_roots": r["in"].get("tool_roots", False)},
            "observed": [{"cmd": s["cmd"], "ok": s["ok"], "out": s["out"][-200:], "obs": s["obs"]} for s in r["steps"][max(0, upto - 1): upto + 1]],
            "lifecycle": True}


def run_into(v, pid, tier, seed, scale=1.0):
    """model-check, generate, replay, judge; returns a coverage dict"""
    tag = f"life-{pid.lower()}"
    w = workdir(tag)
    tuftool = vlib.build_tuftool()
    g = model_check(w, tag, 2 if tier == "quick" else 3)
    num, steps = (160, 6) if tier == "quick" else (600, 7)
    cases = generate(w, tag, seed, int(num * scale), steps)
    cp, out = os.path.join(w, "cases.ndjson"), os.path.join(w, "out.ndjson")
    write_ndjson(cp, cases)
    vh(["lifecycle", "--cases", cp, "--out", out, "--tuftool", tuftool], timeout=6000)
    rows = read_ndjson(out)
    stats = {"behaviours": 0, "steps": 0, "conform": 0, "drift": 0, "nontrivial": 0, "kinds": {}}
    judge(v, pid, rows, stats)
    if stats["behaviours"] and stats["conform"] == 0:
        raise vlib.ToolError(f"no lifecycle behaviour conforms to Lifecycle.tla ({stats}) -- the replay is broken")
    return {"lifecycle_states": g.distinct, "lifecycle_behaviours": stats["behaviours"], "lifecycle_commands": stats["steps"],
            "lifecycle_conforming": stats["conform"], "lifecycle_drift": stats["drift"], "lifecycle_nontrivial": stats["nontrivial"],
            "lifecycle_commands_by_kind": stats["kinds"], "lifecycle_actions": g.coverage}


def replay(path, pid, seed):
    rp = json.load(open(path))["replay"]
    w = workdir(f"life-{pid.lower()}-replay")
    tuftool = vlib.build_tuftool()
    cp, out = os.path.join(w, "cases.ndjson"), os.path.join(w, "out.ndjson")
    write_ndjson(cp, [rp["in"]])
    vh(["lifecycle", "--cases", cp, "--out", out, "--tuftool", tuftool], timeout=600)
    v = vlib.Verdict(pid, "quick", seed)
    judge(v, pid, read_ndjson(out), {"behaviours": 0, "steps": 0, "conform": 0, "drift": 0, "nontrivial": 0, "kinds": {}})
    for what, r in v.violations:
        log(f"VIOLATION property={pid} replay={path}")
        log("  " + what)
    return 1 if v.violations else 0
