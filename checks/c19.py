"""C19 -- a cached (cloned) repository is a faithful, loadable copy (Cache.tla)."""
import json, os
import vlib
import lifecyclelib
from vlib import tlc, make_cfg, vh, workdir, write_ndjson, read_ndjson, Verdict, log

PID = "C19"


def judge(v, rows, stats):
    known = {f["id"] for f in vlib.known_findings().get("findings", [])}
    for r in rows:
        c, o = r["in"], r["obs"]
        stats["evaluations"] += 1
        if c["corrupt"] != "none" or c["chain"] or c["subset"] != ["all"]:
            stats["nontrivial"].add(json.dumps(c, sort_keys=True) + str(r["variant"] % 2))
        bad = None
        if "error" in o:
            bad = f"harness/source problem or panic: {o['error'][:200]}"
            if "panic" not in o["error"]:
                v.note_drift(bad)
                continue
        else:
            outside = [e for e in o["list"] if not (e in ("md/", "tg/", "sibling") or e.startswith("md/") or e.startswith("tg/"))]
            nested_md = [e for e in o["list"] if e.startswith("md/") and "/" in e[3:].rstrip("/")]
            other = [n for n, s in o["stored"].items() if s == "OTHER-CONTENT"]
            if o["res"].startswith("panic"):
                bad = f"panic in cache(): {o['res']}"
            elif outside or nested_md:
                bad = f"cache wrote outside the two directories / below the metadata directory: {outside + nested_md}"
            elif other:
                bad = f"a target that fails verification was stored: {other}"
            elif o["res"] == "ok":
                cp = o["copy"]
                missing = [n for n in c["wanted"] if o["stored"].get(n) != "verified"]
                if missing:
                    bad = f"cache reported success but {missing} were not stored"
                elif not cp.get("loaded"):
                    bad = f"the cached copy does not load: {cp.get('cls')}"
                elif not cp.get("same_versions"):
                    bad = "the cached copy loads with different role versions"
                elif any(x != "identical" for x in cp["reads"].values()):
                    bad = f"targets read back from the copy differ: {cp['reads']}"
                elif c["chain"] and o["roots"] != list(range(1, c["rootv"] + 1)):
                    bad = f"root chain requested, trusted root is version {c['rootv']}, files present for versions {o['roots']}"
                elif cp.get("fs_loaded") != "ok":
                    bad = f"the cached copy does not load through file:// URLs: {cp.get('fs_loaded')}"
                else:
                    failing = [n for n, x in cp.get("fs_reads", {}).items() if x != "identical"]
                    if failing:
                        if "F14-file-transport-does-not-decode-target-names" in known and all(cp["fs_reads"][n] == "err:NotFound" for n in failing):
                            v.known("F14-file-transport-does-not-decode-target-names", "cached targets with a space or a non-ASCII character in their name cannot be read back through file:// URLs")
                        else:
                            bad = f"targets read back through file:// differ: {cp['fs_reads']}"
        if bad:
            v.violation(bad, r)
        elif "error" not in o and (o["res"] == "ok") != c["ok"]:
            v.note_drift(f"model ok={c['ok']}, code {o['res']} for {c}")


def run(tier, seed):
    w = workdir("c19")
    v = Verdict(PID, tier, seed)
    cfg = make_cfg("MC_Cache.cfg", {"MaxRoot": 3}, os.path.join(w, "cache.cfg"))
    g = tlc("Cache", cfg, "c19", workers=2, timeout=300)
    if not g.ok:
        raise vlib.ToolError("Cache.tla: " + (g.violation or "")[-1500:])
    cases = g.replays * (1 if tier == "quick" else 3)
    cp = os.path.join(w, "cases.ndjson")
    write_ndjson(cp, cases)
    out = os.path.join(w, "out.ndjson")
    vh(["c19", "--cases", cp, "--out", out], timeout=3000)
    rows = read_ndjson(out)
    stats = {"evaluations": 0, "nontrivial": set()}
    judge(v, rows, stats)
    samples = [{"case": r["in"], "result": r["obs"].get("res"), "files": r["obs"].get("list"), "copy": r["obs"].get("copy")} for r in rows[len(rows) // 2: len(rows) // 2 + 2]]
    cov = {"states": g.distinct, "transitions": g.generated, "traces_validated_against_impl": stats["evaluations"],
           "samples": samples, "evaluations": stats["evaluations"], "distinct_nontrivial": len(stats["nontrivial"]),
           "rule": "cases = every state of Cache.tla: every subset of the three targets (or none named = all) x root chain requested or not x trusted root version 1..3 x one corrupted source target or none, alternating consistent_snapshot; the source repository has targets with a space / non-ASCII / sub-directory names and a delegated role named 'role/ü x'; after cache() the directory tree is listed, the copy is loaded by a client holding the same root (HTTP-like transport and file:// URLs), versions compared and every requested target read back; non-trivial = a corrupted target, the root chain, or a proper subset",
           "exhaustive": True}
    cov.update(lifecyclelib.run_into(v, PID, tier, seed))
    return v.finish("model_checking", cov, ["TLC enumerates the cases and states which must succeed and which root files must exist; confinement, byte identity and loadability are judged on the real directories",
                                            "tuftool clone is not exercised (library path only); F14 is a recorded finding"])


def replay(path, seed):
    if json.load(open(path))["replay"].get("lifecycle"):
        return lifecyclelib.replay(path, PID, seed)
    rp = json.load(open(path))["replay"]
    w = workdir("c19")
    cp = os.path.join(w, "replay.ndjson")
    write_ndjson(cp, [rp["in"]] * (rp["variant"] % 2 + 1))
    out = os.path.join(w, "replay-out.ndjson")
    vh(["c19", "--cases", cp, "--out", out])
    v = Verdict(PID, "quick", seed)
    judge(v, read_ndjson(out)[-1:], {"evaluations": 0, "nontrivial": set()})
    for what, r in v.violations:
        log(f"VIOLATION property={PID} replay={path}")
        log("  " + what)
    return 1 if v.violations else 0
