"""C08 -- saving a target is atomic, verified-only and confined (Stream.tla with Saving, Names.tla)."""
import json, os, random
import vlib
from vlib import tlc, make_cfg, vh, workdir, write_ndjson, read_ndjson, Verdict, log
import c06

PID = "C08"


def judge_save(v, rows, stats):
    for r in rows:
        b, o = r["b"], r["obs"]
        stats["evaluations"] += 1
        if b["kind"] != "exact":
            stats["nontrivial"].add((r["consistent"], r["delegated"], r["unit"], json.dumps(b["full"]), b["n"], b["prev"]))
        bad = None
        if o["st"] in ("panic", "load-failed"):
            bad = f"save_target: {o['st']} {o['cls']}"
        elif o.get("observer_bad"):
            bad = f"partial or unverified content observable at the destination during the transfer: {o['observer_bad'][:2]}"
        elif o["st"] == "err" and o["changed"]:
            bad = f"failed save changed files: {o['changed']}"
        elif o["st"] == "ok" and (not o["dest_is_signed"] or o["changed"] != [o["dest_rel"]]):
            bad = f"successful save: destination holds signed content = {o['dest_is_signed']}, files changed = {o['changed']}"
        elif b["kind"] != "exact" and o["st"] == "ok":
            bad = f"content variant '{b['kind']}' was saved without error"
        elif b["kind"] == "exact" and o["st"] != "ok":
            bad = f"the signed content could not be saved: {o['cls']}"
        if bad:
            v.violation(bad, r)
        elif o["st"] != b["st"]:
            v.note_drift(f"model {b['st']}/{b['cls']}, code {o['st']}/{o['cls']}")


def judge_names(v, rows, stats):
    for r in rows:
        b, o = r["b"], r["obs"]
        stats["evaluations"] += 1
        nm = b["name"]
        if any(c in nm for c in "./\\"):
            stats["nontrivial"].add((nm, r["prefix_digest"]))
        bad = None
        if o["parse"] == "panic" or o.get("st") == "panic":
            bad = f"panic for name {nm!r}: {o.get('cls')}"
        elif o.get("outside"):
            bad = f"name {nm!r}: files created or modified outside the output directory: {o['outside']}"
        elif o.get("st") == "ok" and not o.get("content_ok"):
            bad = f"name {nm!r}: a file with other than the verified content was written: {o['changed']}"
        elif o.get("st") == "err" and o.get("changed"):
            bad = f"name {nm!r}: failed save left files: {o['changed']}"
        if bad:
            v.violation(bad, r)
            continue
        # conformance with Names.tla (DRIFT)
        verdict = b["verdictDigest"] if r["prefix_digest"] else b["verdict"]
        if b["ok"] != (o["parse"] == "ok"):
            v.note_drift(f"name {nm!r}: model valid={b['ok']}, code parse={o['parse']} {o.get('cls')}")
        elif b["ok"] and "st" in o:
            if o["resolved"] != c06_subst(b["resolved"]):
                v.note_drift(f"name {nm!r}: model resolves to {b['resolved']!r}, code to {o['resolved']!r}")
            elif verdict == "inside" and (o["st"] != "ok" or o["changed"] != [o["expected_rel"]]):
                v.note_drift(f"name {nm!r}: model saves to {o['expected_rel']}, code {o['st']} {o['cls']} {o['changed']}")
            elif verdict == "inside-or-no-url" and not ((o["st"] == "ok" and o["changed"] == [o["expected_rel"]]) or (o["st"] == "err" and o["cls"] == "JoinUrl")):
                v.note_drift(f"name {nm!r}: model saves to {o['expected_rel']} or fails to build a URL, code {o['st']} {o['cls']} {o['changed']}")
            elif verdict == "unsafe-path" and o["st"] != "err":
                v.note_drift(f"name {nm!r}: model refuses (absolute), code {o['st']}")
        elif b["ok"] and "load" in o:
            v.note_drift(f"name {nm!r}: repository listing it does not load: {o['load']} {o.get('load_msg', '')[:200]}")


def c06_subst(s):
    return s.replace("^", "\x01").replace("@", "é")


def run(tier, seed):
    w = workdir("c08")
    v = Verdict(PID, tier, seed)
    maxlen = 3
    mc = c06.stream_model(w, maxlen, "TRUE", "BothPrev", ["EndsOkImpliesDigest", "NeverMoreThanSignedLength", "NoPartialAtDest", "FailureChangesNothing", "SuccessIsComplete"], "c08-check")
    if not mc.ok:
        raise vlib.ToolError("Stream.tla (Saving) violates its invariants:\n" + mc.violation[-2000:])
    gen = c06.stream_model(w, maxlen if tier == "thorough" else 2, "TRUE", "BothPrev", ["Emit"], "c08-gen")
    # Observe steps do not change what is replayed: keep distinct (n, full, prev)
    seen, beh = set(), []
    for b in gen.replays:
        k = (b["n"], json.dumps(b["full"]), b["prev"])
        if k not in seen:
            seen.add(k)
            beh.append(b)
    bp = os.path.join(w, "beh.ndjson")
    write_ndjson(bp, beh)
    stats = {"evaluations": 0, "nontrivial": set()}
    sample_rows = []
    for u in ([1, 4096] if tier == "quick" else [1, 7, 4096, 16384]):
        out = os.path.join(w, f"save-{u}.ndjson")
        vh(["c06", "--behaviours", bp, "--out", out, "--unit", str(u), "--saving", "true",
            "--variants", "ff,tt" if tier == "quick" else "ff,tf,ft,tt"])
        rows = read_ndjson(out)
        judge_save(v, rows, stats)
        sample_rows += rows[:2]
    # names
    nl = 3 if tier == "quick" else 5
    cfg = make_cfg("MC_Names_target.cfg", {"MaxLen": nl}, os.path.join(w, "names.cfg"))
    ng = tlc("Names", cfg, "c08-names", workers=4, timeout=1200)
    if not ng.ok:
        raise vlib.ToolError("Names.tla: " + (ng.violation or "")[-1500:])
    names = ng.replays
    rnd = random.Random(seed)
    alphabet = ["a", ".", "/", "\\", " ", "@", "^", "..", "//", "/.."]
    extra = []
    for _ in range(300 if tier == "quick" else 20000):
        s = "".join(rnd.choice(alphabet) for _ in range(rnd.randint(6, 40)))[:40]
        extra.append(s)
    # every path of up to 5 segments over {a, .., .} (thorough: plus 'b c' and the empty segment), with and
    # without a leading slash: '..' segments after a normal one, repeated separators, leading slashes
    import itertools
    segs = ["a", "..", "."] if tier == "quick" else ["a", "..", ".", "b c", ""]
    for n in range(1, 6 if tier == "quick" else 6):
        for combo in itertools.product(segs, repeat=n):
            p = "/".join(combo)
            if p and p not in ("", "/"):
                extra.append(p)
                extra.append("/" + p)
    extra = list(dict.fromkeys(extra))
    np_ = os.path.join(w, "names.ndjson")
    write_ndjson(np_, names)
    out = os.path.join(w, "names-out.ndjson")
    vh(["c08-names", "--names", np_, "--out", out], timeout=3000)
    nrows = read_ndjson(out)
    judge_names(v, nrows, stats)
    # random long names: expectations computed by re-running Names.tla is too slow; they are checked
    # for the property only (confinement, verified content), with the model's verdict left open
    ep = os.path.join(w, "names-random.ndjson")
    write_ndjson(ep, [{"name": s, "ok": None, "resolved": "", "verdict": None} for s in extra])
    out2 = os.path.join(w, "names-random-out.ndjson")
    vh(["c08-names", "--names", ep, "--out", out2], timeout=3000)
    for r in read_ndjson(out2):
        o = r["obs"]
        stats["evaluations"] += 1
        stats["nontrivial"].add((r["b"]["name"], r["prefix_digest"]))
        if o["parse"] == "panic" or o.get("st") == "panic":
            v.violation(f"panic for name {r['b']['name']!r}: {o.get('cls')}", r)
        elif o.get("outside"):
            v.violation(f"name {r['b']['name']!r}: files outside the output directory: {o['outside']}", r)
        elif o.get("st") == "ok" and not o.get("content_ok"):
            v.violation(f"name {r['b']['name']!r}: unverified content written", r)
        elif o.get("st") == "err" and o.get("changed"):
            v.violation(f"name {r['b']['name']!r}: failed save left files {o['changed']}", r)
    samples = [{"kind": r["b"]["kind"], "n": r["b"]["n"], "chunks": r["b"]["full"], "previous_file": r["b"]["prev"],
                "observed": {k: r["obs"].get(k) for k in ("st", "cls", "changed")}} for r in sample_rows[:3]]
    samples += [{"name": r["b"]["name"], "prefix_digest": r["prefix_digest"], "observed": {k: r["obs"].get(k) for k in ("parse", "resolved", "st", "cls", "changed")}} for r in nrows[len(nrows) // 2: len(nrows) // 2 + 3]]
    cov = {"states": mc.distinct + ng.distinct, "transitions": mc.generated + ng.generated,
           "traces_validated_against_impl": stats["evaluations"], "samples": samples,
           "evaluations": stats["evaluations"], "distinct_nontrivial": len(stats["nontrivial"]),
           "rule": "transfers = every terminal path of Stream.tla with Saving (content variants x chunkings x failure positions x previous file or none), observed at the destination before every chunk; names = every string up to length MaxLen over {a . / \\ space U+00E9 U+0001} enumerated by Names.tla plus random names up to length 40 and every path of up to 5 segments over {a, .., .} with and without a leading slash, each saved with and without digest prefix; non-trivial = corrupted/failed transfer, or a name containing a path-significant character",
           "names_exhaustive_up_to": nl, "random_names": len(extra), "exhaustive": True}
    return v.finish("model_checking", cov, ["TLC; the observer runs in the transport before each chunk is handed out (single-threaded runtime), i.e. at every point between two chunks; directories created by create_dir_all are not files and are ignored when comparing trees"])


def replay(path, seed):
    rp = json.load(open(path))["replay"]
    w = workdir("c08")
    v = Verdict(PID, "quick", seed)
    st = {"evaluations": 0, "nontrivial": set()}
    if "prefix_digest" in rp:
        np_ = os.path.join(w, "replay-name.ndjson")
        write_ndjson(np_, [rp["b"]])
        out = os.path.join(w, "replay-name-out.ndjson")
        vh(["c08-names", "--names", np_, "--out", out])
        rows = [r for r in read_ndjson(out) if r["prefix_digest"] == rp["prefix_digest"]]
        if rp["b"].get("ok") is None:
            for r in rows:
                o = r["obs"]
                if o.get("outside") or o["parse"] == "panic" or (o.get("st") == "err" and o.get("changed")):
                    v.violation("random name violation reproduced", r)
        else:
            judge_names(v, rows, st)
    else:
        bp = os.path.join(w, "replay-beh.ndjson")
        write_ndjson(bp, [rp["b"]])
        out = os.path.join(w, "replay-out.ndjson")
        var = ("t" if rp["consistent"] else "f") + ("t" if rp["delegated"] else "f")
        vh(["c06", "--behaviours", bp, "--out", out, "--unit", str(rp["unit"]), "--saving", "true", "--variants", var])
        judge_save(v, read_ndjson(out), st)
    for what, r in v.violations:
        log(f"VIOLATION property={PID} replay={path}")
        log("  " + what)
    return 1 if v.violations else 0
