"""C18 -- HTTP transport yields exactly the resource bytes or an error, retries bounded (Http.tla)."""
import json, os
import vlib
from vlib import tlc, make_cfg, vh, workdir, write_ndjson, read_ndjson, Verdict, log

PID = "C18"


def model(w, tries, size, announce, invs, tag):
    cfg = make_cfg("MC_Http.cfg", {"Tries": tries, "Size": size, "Announce": announce}, os.path.join(w, f"{tag}.cfg"), invariants=invs)
    return tlc("Http", cfg, f"c18-{tag}", workers=2, timeout=600)


INVS = ["PrefixOnly", "OkMeansComplete", "RequestsAtMostTries", "RangeOnlyIfAnnounced", "NotFoundClass", "ClientErrorsFailFast"]


def judge(v, rows, stats):
    for r in rows:
        b, o, slog = r["b"], r["obs"], r["server_log"]
        u = r["unit"]
        stats["evaluations"] += 1
        key = (b["tries"], b["size"], b["announce"], json.dumps(b["answers"]), u)
        if len(b["answers"]) > 1 or b["answers"][0]["a"] != "200full":
            stats["nontrivial"].add(key)
        bad = None
        ranges = [e["range"] for e in slog]
        answered = [e["answer"] for e in slog]
        if str(o["result"]).startswith("panic"):
            bad = f"panic: {o['result']}"
        elif not o["is_prefix"]:
            bad = f"the {o['got_bytes']} bytes delivered are not a prefix of the resource (duplicated or misplaced data)"
        elif o["result"] == "ok" and not o["complete"]:
            bad = f"stream ended without error after {o['got_bytes']} of {b['size'] * u} bytes"
        elif len(slog) > b["tries"]:
            bad = f"{len(slog)} requests for one fetch with tries = {b['tries']}"
        elif any(rg is not None for rg in ranges) and not b["announce"]:
            bad = f"Range header sent although the server never announced range support: {ranges}"
        elif any(a in ("403", "404", "410") for a in answered) and o["result"] != "notfound":
            bad = f"answers {answered} reported as {o['result']}, expected 'file not found'"
        elif any(a in ("400", "416") for a in answered[:-1]):
            bad = f"a request followed a 400/416 answer: {answered}"
        elif answered and answered[-1] in ("400", "416") and o["result"] != "error":
            bad = f"400/416 answer reported as {o['result']}"
        else:
            # Range must name the next missing byte: bytes the server had handed over before
            sent = 0
            for e in slog:
                if e["range"] is not None and e["range"] != f"bytes={sent}-":
                    bad = f"Range {e['range']} after {sent} bytes had been delivered"
                    break
                if e["answer"] == "stall":
                    sent += e["k"] * u
        if bad:
            v.violation(bad, r)
            continue
        exp_reqs = [None if x < 0 else f"bytes={x * u}-" for x in b["reqs"]]
        if (o["result"], o["got_bytes"], ranges) != (b["result"], b["delivered"] * u, exp_reqs):
            v.note_drift(f"model {b['result']}/{b['delivered'] * u}B/{exp_reqs}, code {o['result']}/{o['got_bytes']}B/{ranges} for answers {[(a['a'], a['k']) for a in b['answers']]} tries={b['tries']} announce={b['announce']} ({o.get('detail', '')[:120]})")


def run(tier, seed):
    w = workdir("c18")
    v = Verdict(PID, tier, seed)
    states = trans = 0
    beh = []
    tries_set = (1, 2, 3, 4) if tier == "thorough" else (1, 2, 3)
    sizes = (0, 1, 2, 3) if tier == "thorough" else (0, 2)
    for tries in tries_set:
        for size in sizes:
            for ann in ("TRUE", "FALSE"):
                mc = model(w, tries, size, ann, INVS, f"mc-{tries}-{size}-{ann}")
                if not mc.ok:
                    raise vlib.ToolError(f"Http.tla (tries={tries}, size={size}, announce={ann}) violates an invariant:\n" + mc.violation[-2500:])
                states += mc.distinct
                trans += mc.generated
                g = model(w, tries, size, ann, ["Emit"], f"gen-{tries}-{size}-{ann}")
                beh += g.replays
    bp = os.path.join(w, "beh.ndjson")
    write_ndjson(bp, beh)
    stats = {"evaluations": 0, "nontrivial": set()}
    samples = []
    units = [1, 65536] if tier == "thorough" else [1, 4096]
    for i, u in enumerate(units):
        sub = beh if (i == 0 or tier == "thorough") else beh[seed % 3::3]
        sp = os.path.join(w, f"beh-{u}.ndjson")
        write_ndjson(sp, sub)
        out = os.path.join(w, f"out-{u}.ndjson")
        vh(["c18", "--behaviours", sp, "--out", out, "--unit", str(u), "--timeout-ms", "150"], timeout=3000)
        rows = read_ndjson(out)
        judge(v, rows, stats)
        samples += [{"tries": r["b"]["tries"], "size_units": r["b"]["size"], "unit": u, "announce": r["b"]["announce"],
                     "answers": r["b"]["answers"], "requests_seen_by_server": r["server_log"], "observed": r["obs"]}
                    for r in rows[len(rows) // 3: len(rows) // 3 + 2]]
    cov = {"states": states, "transitions": trans, "traces_validated_against_impl": stats["evaluations"],
           "samples": samples[:4], "evaluations": stats["evaluations"], "distinct_nontrivial": len(stats["nontrivial"]),
           "rule": "behaviours = every terminal path of Http.tla for tries 1..4, resource 0..3 units, Accept-Ranges announced or not: each request answered with 200 full / 206 remainder / 200 stalled after k units / 500 / 403 / 404 / 410 / 400 / 416; each fetched through the real HttpTransport from a scripted TCP server (unit 1 B .. 64 KiB); non-trivial = at least one answer other than a plain 200",
           "behaviours": len(beh), "exhaustive": True}
    return v.finish("model_checking", cov, ["TLC; the server script is chosen lazily per request in the model and replayed by a local raw-TCP HTTP/1.1 server; stalls are realised as silence beyond the 150 ms request timeout; connection resets and malformed responses are outside the alphabet of the property"])


def replay(path, seed):
    rp = json.load(open(path))["replay"]
    w = workdir("c18")
    bp = os.path.join(w, "replay-beh.ndjson")
    write_ndjson(bp, [rp["b"]])
    out = os.path.join(w, "replay-out.ndjson")
    vh(["c18", "--behaviours", bp, "--out", out, "--unit", str(rp["unit"]), "--timeout-ms", "150"])
    v = Verdict(PID, "quick", seed)
    judge(v, read_ndjson(out), {"evaluations": 0, "nontrivial": set()})
    for what, r in v.violations:
        log(f"VIOLATION property={PID} replay={path}")
        log("  " + what)
    return 1 if v.violations else 0
