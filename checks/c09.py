"""C09 -- work and data taken from an untrusted repository are bounded.
Cycle level: TufClient.tla / MC_Bounds (sizes, endless streams, unbounded root chains).
Delegation graphs (self- and mutual delegation, delegated roles larger than targets.json): Delegation.tla."""
import clientlib
import vlib

PID = "C09"
FIELDS = ["bounded", "bytes"]
ASSUME = ["TLC; lengths in units of 4096 bytes realised by padding with whitespace; the transport delivers 1024-byte chunks, so at most one chunk beyond the bound is pulled before the size adapter fails the stream",
          "byte-exact limits (size-1) are realised by subtracting one byte from the configured limit and validating against the model with the next lower unit limit"]


def nontrivial(b):
    return any(e.get("o") == "MaxSize" or e["ev"] == "rootmax" or e.get("s", {}).get("k") == "endless" for e in b["hist"])


def plans(tier):
    mcs, gens = [], []
    for L in ((0, 1, 2) if tier == "thorough" else (1, 2)):
        mcs.append(("MC_Bounds", "MC_Bounds_check.cfg", {"L": L}, f"c09-L{L}"))
    lens = "{1, 2, 3}" if tier == "thorough" else "{1, 2}"
    for L in ((0, 1, 2) if tier == "thorough" else (1, 2)):
        gens.append(("MC_Bounds", "MC_Bounds_check.cfg", {"L": L, "Lens": lens}, f"c09-L{L}",
                     {"chunk": 1024, "every": 1 if tier == "thorough" else 2}))
    # a different limit per role (root 2, timestamp 1, snapshot 2, targets 3 units): a limit applied to the wrong role
    mcs.append(("MC_Bounds", "MC_Bounds_check.cfg", {"L": 1, "Lens": "{1, 2, 3}", "Spread": "TRUE"}, "c09-spread"))
    gens.append(("MC_Bounds", "MC_Bounds_check.cfg", {"L": 1, "Lens": "{1, 2, 3}", "Spread": "TRUE"}, "c09-spread",
                 {"chunk": 1024, "every": 1 if tier == "thorough" else 2}))
    # byte-exact: configured limit = (L+1) units - 1 byte behaves like the model with limit L
    gens.append(("MC_Bounds", "MC_Bounds_check.cfg", {"L": 1, "Lens": "{1, 2}"}, "c09-exact",
                 {"chunk": 1024, "limits": {"root": 2, "ts": 2, "sn": 2, "tg": 2, "delta": -1}, "every": 1 if tier == "thorough" else 3}))
    return mcs, gens


def group_key(b):
    # a behaviour replayed with limit (L+1) units - 1 byte is validated against model limit L
    if b["limits"].get("delta") == -1:
        return {"LimRoot": b["limits"]["root"] - 1, "LimTs": b["limits"]["ts"] - 1,
                "LimSn": b["limits"]["sn"] - 1, "LimTg": b["limits"]["tg"] - 1, "Slack": b.get("unit", 4096) - 1}
    return {}


def run(tier, seed):
    mcs, gens = plans(tier)
    v, cov, a, _ = clientlib.run_plan(PID, tier, seed, mcs, gens, FIELDS, nontrivial,
        "behaviours = every path of MC_Bounds: per request a file of 1..3 units or an endless stream, pinned length absent/1/2/3 units, configured limit 0/1/2 units and limit-1-byte, a never-ending chain of valid newer roots against max_root_updates = 2; non-trivial = an oversized/endless answer or the root-update limit was hit",
        ASSUME, group_key=group_key)
    import c09deleg
    c09deleg.run_into(v, cov, tier, seed)
    return v.finish("model_checking", cov, a)


def replay(path, seed):
    import json
    rp = json.load(open(path))["replay"]
    if "in" in rp and "edges" in rp["in"]:
        import c09deleg
        return c09deleg.replay(path, seed)
    return clientlib.replay_one(PID, path, seed, FIELDS)
