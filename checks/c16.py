"""C16 -- role names never steer file access outside the metadata directories, nor collide (Names.tla)."""
import json, os, random
import vlib
from vlib import tlc, make_cfg, vh, workdir, write_ndjson, read_ndjson, Verdict, log

PID = "C16"
BASE = "mem://r/metadata/"


def plain(entry):
    return entry not in ("", ".", "..") and "/" not in entry


STD = {"root.json", "timestamp.json", "snapshot.json", "targets.json", "latest_known_time.json"}


def role_entries(entries, prefix):
    """entries of a listing / URL list that are not the four top-level documents: the delegated role's own"""
    out = set()
    for e in entries:
        if not e.startswith(prefix) or e.endswith("/"):
            continue
        f = e[len(prefix):]
        base = f.split(".", 1)[1] if f.split(".", 1)[0].isdigit() and "." in f else f
        if base not in STD and f not in STD:
            out.add(f)
    return out


def places(r):
    """(place, consistent) -> files the role of this row maps to there"""
    out = {}
    for full in r.get("full", []):
        c = full["consistent"]
        out[("URL requested by load", c)] = role_entries(full["urls"], BASE)
        out[("datastore file", c)] = role_entries(full["ds"], "datastore/")
        out[("file written by cache", c)] = role_entries(full["cache_list"], "md/")
        out[("URL requested by cache", c)] = role_entries(full["cache_urls"], BASE)
    for ed in r.get("editor", []):
        out[("file written by the editor", ed["consistent"])] = role_entries(ed["list"], "metadata/")
    return out


def judge(v, rows, stats):
    owner = {}
    for r in rows:
        if "collisions" in r:
            continue
        for place, files in places(r).items():
            for f in files:
                prev = owner.setdefault((place, f), r["in"]["name"])
                if prev != r["in"]["name"]:
                    v.violation(f"two role names map to the same {place[0]} (consistent_snapshot={place[1]}): {f!r} for {prev!r} and {r['in']['name']!r}", r)
    for r in rows:
        if "collisions" in r:
            for c in r["collisions"]:
                v.violation(f"two role names map to the same file {c['file']}: {c['names']}", c)
            continue
        c = r["in"]
        stats["evaluations"] += 1
        name = c["name"]
        if any(ch in name for ch in "/\\.%?#: ^`@"):
            stats["nontrivial"].add(name)
        bad = None
        for f in (r["filename"], r["filename_consistent"]):
            if not plain(f):
                bad = f"file name {f!r} for role {name!r} is not a plain directory entry"
        for full in r.get("full", []):
            if full["cls"].startswith("panic"):
                bad = f"panic loading a repository with role {name!r}: {full['cls']}"
            for u in full["urls"] + full["cache_urls"]:
                if not u.startswith(BASE) or not plain(u[len(BASE):]):
                    bad = f"role {name!r}: request {u} is not a plain entry of the metadata base URL"
            for e in full["ds"]:
                # everything the client stores lies directly inside the datastore directory
                if not (e in ("datastore/", "sibling") or (e.startswith("datastore/") and plain(e[len("datastore/"):]))):
                    bad = f"role {name!r}: datastore side effect {e!r} outside / below the datastore directory"
            for e in full["cache_list"]:
                ok = e in ("md/", "tg/") or (e.startswith("md/") and plain(e[3:])) or e.startswith("tg/")
                if not ok:
                    bad = f"role {name!r}: cache wrote {e!r} outside the two cache directories"
        for ed in r.get("editor", []):
            if ed["res"].startswith("panic"):
                bad = f"panic in the editor for role {name!r}: {ed['res']}"
            for e in ed["list"]:
                if not (e == "metadata/" or (e.startswith("metadata/") and plain(e[len("metadata/"):]))):
                    bad = f"role {name!r}: editor wrote {e!r}, not a plain entry of the output directory"
        if bad:
            v.violation(bad, r)
            continue
        # conformance with Names.tla
        if c.get("file") is not None:
            if r["filename"] != c["file"]:
                v.note_drift(f"role {name!r}: model file {c['file']!r}, code {r['filename']!r}")
            for full in r.get("full", []):
                want = BASE + full["expect_file"]
                if not full["loaded"] or want not in full["urls"]:
                    v.note_drift(f"role {name!r} (consistent={full['consistent']}): load {full['cls']}, requested {full['urls'][-2:]}, expected {want}")
                elif full["cache"] != "ok" or ("md/" + full["expect_file"]) not in full["cache_list"]:
                    v.note_drift(f"role {name!r}: cache {full['cache']} wrote {full['cache_list']}")
            for ed in r.get("editor", []):
                want = "metadata/" + ("1." if ed["consistent"] else "") + c["file"]
                if ed["res"] != "ok" or want not in ed["list"]:
                    v.note_drift(f"role {name!r}: editor {ed['res'][:150]} wrote {ed['list']}, expected {want}")


def run(tier, seed):
    w = workdir("c16")
    v = Verdict(PID, tier, seed)
    maxlen = 4 if tier == "thorough" else 3
    cfg = make_cfg("MC_Names_role.cfg", {"MaxLen": maxlen}, os.path.join(w, "names.cfg"))
    g = tlc("Names", cfg, "c16", workers=6, timeout=1500)
    if not g.ok:
        raise vlib.ToolError("Names.tla (role mode): " + (g.violation or "")[-1500:])
    cases = g.replays
    rnd = random.Random(seed)
    alphabet = ["a", "F", "2", "/", "\\", ".", "%", "?", "#", ":", " ", "^", "`", "@", "..", "%2F", ".json", "_", "~", "-"]
    for _ in range(400 if tier == "quick" else 5000):
        s = "".join(rnd.choice(alphabet) for _ in range(rnd.randint(3, 30)))[:64]
        cases.append({"name": s, "file": None})
    # names and percent-encoded spellings of them (and of those), through every path
    def enc(x, lower=False):
        o = "".join(ch if (ch.isascii() and (ch.isalnum() or ch in "_.~-")) else "".join(("%%%02x" if lower else "%%%02X") % b for b in ch.encode()) for ch in x)
        return o
    specials = []
    for x in ["a/b", "..", "../x", "a b", "%", "@", "a%b", "%C3%A9", ".", "a.json", "a/../b", "%2F", "a\\b", "a?b#c", "a:b", "a`b", "ab", "`", "a\nb", "a\rb"]:
        specials += [x, enc(x), enc(enc(x)), enc(x, lower=True)]
    for x in dict.fromkeys(specials):
        cases.append({"name": x, "file": None, "deep": True})
    for c in rnd.sample([c for c in cases if c["file"] is None and not c.get("deep")], 30 if tier == "quick" else 400):
        c["deep"] = True
    cp = os.path.join(w, "cases.ndjson")
    write_ndjson(cp, cases)
    out = os.path.join(w, "out.ndjson")
    vh(["c16", "--cases", cp, "--deep-maxlen", "3" if tier == "thorough" else "2", "--out", out], timeout=3400)
    rows = read_ndjson(out)
    stats = {"evaluations": 0, "nontrivial": set()}
    judge(v, rows, stats)
    deep = [r for r in rows if "full" in r]
    samples = [{"name": r["in"]["name"], "file": r["filename"], "requested": r["full"][1]["urls"][-1:], "datastore": r["full"][1]["ds"],
                "editor_output": r["editor"][1]["list"]} for r in deep[len(deep) // 2: len(deep) // 2 + 3]]
    cov = {"states": g.distinct, "transitions": g.generated, "traces_validated_against_impl": stats["evaluations"],
           "samples": samples, "evaluations": stats["evaluations"], "distinct_nontrivial": len(stats["nontrivial"]),
           "rule": "role names = every string up to length MaxLen over {a F 2 / \\ . % ? # : space U+0001 U+00E9} enumerated by Names.tla (with the file name Names.tla derives) plus random names up to length 64 incl. '..', '%2F', '.json'; all go through DelegatedTargets::filename and the collision check; names up to length 2 (thorough: 3), 14 names with their percent-encoded, doubly encoded and lower-case-hex spellings, and a sample of the random names additionally through load() with a datastore, cache() and RepositoryEditor sign+write, with both consistent_snapshot settings, where injectivity is checked per place (URL requested by load / by cache, datastore file, cache file, editor file); non-trivial = the name contains a character that must be encoded or a dot",
           "names_through_all_paths": len(deep), "exhaustive": True}
    return v.finish("model_checking", cov, ["TLC enumerates names and transcribes the percent-encoding; injectivity is checked over all names of one run (distinct names, distinct files)",
                                            "the reserved names targets/snapshot/timestamp/root are the same string as a delegated role of that name and are outside 'two different role names'"])


def replay(path, seed):
    rp = json.load(open(path))["replay"]
    if "in" not in rp:
        return 1
    w = workdir("c16")
    cp = os.path.join(w, "replay.ndjson")
    write_ndjson(cp, [rp["in"]])
    out = os.path.join(w, "replay-out.ndjson")
    vh(["c16", "--cases", cp, "--deep-maxlen", "64", "--out", out])
    v = Verdict(PID, "quick", seed)
    judge(v, read_ndjson(out), {"evaluations": 0, "nontrivial": set()})
    for what, r in v.violations:
        log(f"VIOLATION property={PID} replay={path}")
        log("  " + what)
    return 1 if v.violations else 0
