"""C07 -- a delegated role can only provide targets inside its delegated paths (Delegation.tla, tree mode)."""
import json, os
import vlib
import delegclilib
from vlib import tlc, make_cfg, vh, workdir, write_ndjson, read_ndjson, Verdict, log, tla_set

PID = "C07"


def model(w, roles, names, invs, tag):
    cfg = make_cfg("MC_Deleg_tree.cfg", {"Roles": tla_set(roles), "Names": tla_set(names), "Fuel": len(roles) + 2},
                   os.path.join(w, f"{tag}.cfg"), invariants=invs)
    return tlc("Delegation", cfg, f"c07-{tag}", workers=8, timeout=1500)


def judge(v, rows, stats):
    for r in rows:
        c = r["in"]
        stats["evaluations"] += 1
        listed = set(n for l in c["lists"].values() for n in l)
        multi = any(sum(1 for l in c["lists"].values() if n in l) > 1 for n in listed)
        if multi or any(set(e["m"]) != set(c["find"].keys()) for e in c["edges"]):
            stats["nontrivial"].add(json.dumps([c["edges"], c["lists"], r["variant"] % 4], sort_keys=True))
        bad = None
        if r["cls"].startswith("panic"):
            bad = f"panic while loading: {r['cls']}"
        elif r["loaded"]:
            unauth = [n for n in listed if c["find"][n] == "none"]
            if unauth:
                bad = f"repository loads although {unauth} is listed by a role that no authorized chain reaches"
            else:
                for n, who in r["found"].items():
                    if who != c["find"][n]:
                        bad = f"target {n} is served from the entry of '{who}', the authorized entry (first in pre-order with a matching chain) is '{c['find'][n]}'"
                        break
        if bad:
            v.violation(bad, r)
        elif r["loaded"] != c["loadok"]:
            v.note_drift(f"model load={c['loadok']}, code load={r['loaded']} ({r['cls']}) for edges {c['edges']} lists {c['lists']}")


def run(tier, seed):
    w = workdir("c07")
    v = Verdict(PID, tier, seed)
    roles, names = (["a", "b", "c"], ["n1", "n2"]) if tier == "thorough" else (["a", "b"], ["n1", "n2"])
    mc = model(w, ["a", "b", "c"], ["n1", "n2"], ["FindMeetsSpec", "LoadedMeansAuthorized"], "check")
    if not mc.ok:
        raise vlib.ToolError("Delegation.tla violates its invariants:\n" + mc.violation[-2000:])
    gen = model(w, roles, names, ["Emit"], "gen")
    cases = gen.replays
    if tier == "quick":
        # depth: three delegated roles over one name (a role without an entry whose delegate has one, next to a
        # sibling that has one too: the order is depth-first, not by level)
        g1 = model(w, ["a", "b", "c"], ["n1"], ["Emit"], "gen1")
        cases = cases + g1.replays
    if tier == "thorough":
        g3 = model(w, ["a", "b"], ["n1", "n2", "n3"], ["Emit"], "gen3")
        cases = cases[seed % 4::4] + g3.replays[seed % 8::8]
    for i, c in enumerate(cases):
        c["variant"] = i + seed
    cp = os.path.join(w, "cases.ndjson")
    write_ndjson(cp, cases)
    out = os.path.join(w, "out.ndjson")
    vh(["deleg", "--cases", cp, "--mode", "tree", "--out", out], timeout=3000)
    rows = read_ndjson(out)
    stats = {"evaluations": 0, "nontrivial": set()}
    judge(v, rows, stats)
    samples = [{"edges": r["in"]["edges"], "lists": r["in"]["lists"], "authorized_entry": r["in"]["find"], "pattern_variant": r["variant"] % 4,
                "loaded": r["loaded"], "served_from": r["found"]} for r in rows[len(rows) // 2: len(rows) // 2 + 3]]
    cov = {"states": mc.distinct, "transitions": mc.generated, "traces_validated_against_impl": stats["evaluations"],
           "samples": samples, "evaluations": stats["evaluations"], "distinct_nontrivial": len(stats["nontrivial"]),
           "rule": "repositories = every state of Delegation.tla (tree mode): every delegation tree over the roles, every set of names each edge matches, every set of names each role lists; match sets are realised as literal paths, dir/*, one-'?' patterns and path_hash_prefixes in rotation, names partly spelled with '..' / '.' segments; consistent snapshots so that the requested digest shows which role's entry is enforced; non-trivial = a name is listed by several roles or some edge does not match every name",
           "exhaustive": tier == "quick"}   # quick: all repositories with 2 delegated roles over 2 names and with 3 roles over 1 name
    cov.update(delegclilib.run_into(v, PID, tier, seed))
    return v.finish("model_checking", cov, ["TLC; the pattern language is abstracted to the set of names an edge matches; names and patterns never put '/' under a wildcard (globset lets '*' cross '/', which the property does not fix)",
                                            "trees up to 3 delegated roles (depth 3) and 2-3 names exhaustively; fan-out 3 / 6 names are not reached"])


def replay(path, seed):
    if json.load(open(path))["replay"].get("delegcli"):
        return delegclilib.replay(path, PID, seed)
    rp = json.load(open(path))["replay"]
    w = workdir("c07")
    c = rp["in"]
    c["variant"] = rp["variant"]
    cp = os.path.join(w, "replay.ndjson")
    write_ndjson(cp, [c])
    out = os.path.join(w, "replay-out.ndjson")
    vh(["deleg", "--cases", cp, "--mode", "tree", "--out", out])
    v = Verdict(PID, "quick", seed)
    judge(v, read_ndjson(out), {"evaluations": 0, "nontrivial": set()})
    for what, r in v.violations:
        log(f"VIOLATION property={PID} replay={path}")
        log("  " + what)
    return 1 if v.violations else 0
