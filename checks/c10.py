"""C10 -- whatever the repository editor signs and writes, the client loads back unchanged (Editor.tla)."""
import json, os
import vlib
import delegclilib
import lifecyclelib
from vlib import tlc, make_cfg, vh, workdir, write_ndjson, read_ndjson, Verdict, log

PID = "C10"


def model(w, maxops, checked, invs, tag, names='{"t1", "t2"}', probe="FALSE", minops=0, simulate=None, seed=None, dkeys="{110, 111}", deep="FALSE"):
    cfg = make_cfg("MC_Editor.cfg", {"MaxOps": maxops, "ThresholdChecked": checked, "Names": names, "ProbeRefusals": probe, "MinOps": minops, "DKeys": dkeys, "Deep": deep}, os.path.join(w, f"{tag}.cfg"), invariants=invs)
    if simulate:
        return tlc("Editor", cfg, f"c10-{tag}", workers=1, timeout=1700, simulate=simulate, depth=maxops + 2, seed=seed)
    return tlc("Editor", cfg, f"c10-{tag}", workers=10, timeout=1700)


def judge(v, rows, stats):
    known = {f["id"] for f in vlib.known_findings().get("findings", [])}
    for r in rows:
        p, o = r["p"], r["obs"]
        stats["evaluations"] += 1
        ops = [x["op"] for x in p["ops"]]
        if p.get("probe"):
            stats["probes"] = stats.get("probes", 0) + 1
        if "delegate_role" in ops or "change_delegated_targets" in ops:
            stats["nontrivial"].add(json.dumps(p["ops"], sort_keys=True))
        bad = None
        if o["stage"] == "panic" or "panic" in str(o.get("err", "")):
            bad = f"panic in the editor: {o.get('err')}"
        elif o["stage"] in ("op", "sign", "new", "nosign"):
            stats["refused"] = stats.get("refused", 0) + 1
            if p["loads"] and all(not (x["op"] == "delegate_role" and x["thr"] > len(x["keys"])) for x in p["ops"]):
                v.note_drift(f"the model accepts this program, the editor refuses it at {o['stage']}: {str(o.get('err'))[:200]} -- {json.dumps(p['ops'])[:300]}")
            continue
        elif o["stage"] == "write":
            bad = f"sign succeeded but write failed: {o['err']}"
        elif not o["loaded"]:
            bad = f"the editor signed and wrote a repository that the client refuses: {o['cls']}"
        elif o["view"] != p["view"]:
            bad = f"the client sees {json.dumps(o['view'])[:300]} where {json.dumps(p['view'])[:300]} was put in"
        elif o.get("put_problems"):
            bad = f"the client sees versions / expirations other than the ones put in (timestamp 9, snapshot 7, a different expiration per role): {o['put_problems'][:3]}"
        elif not o["meta_ok"]:
            bad = f"snapshot/timestamp do not describe the written files exactly: {o['meta_detail'][:2]}"
        elif o["publish_err"]:
            bad = f"publishing targets failed: {o['publish_err'][:2]}"
        elif any(x != "ok" for x in o["downloads"].values()):
            bad = f"published targets do not download and verify: {o['downloads']}"
        if bad:
            v.violation(bad, r)
            continue
        # the same repository through file:// URLs
        if o["fs_loaded"] != "ok":
            v.violation(f"the written repository does not load through file:// URLs: {o['fs_loaded']}", r)
        else:
            failing = [n for n, x in o["fs_downloads"].items() if x != "ok"]
            if failing:
                if "F14-file-transport-does-not-decode-target-names" in known and all(o["fs_downloads"][n] == "err:NotFound" for n in failing):
                    v.known("F14-file-transport-does-not-decode-target-names", "targets whose names contain a space or a non-ASCII character are published under their literal name but requested under the percent-encoded one by FilesystemTransport")
                else:
                    v.violation(f"published targets do not download through file:// URLs: {o['fs_downloads']}", r)


def run(tier, seed):
    w = workdir("c10")
    v = Verdict(PID, tier, seed)
    mc = model(w, 5 if tier == "thorough" else 4, "TRUE", ["SignedLoads"], "check")
    if not mc.ok:
        raise vlib.ToolError("Editor.tla violates SignedLoads:\n" + mc.violation[-2500:])
    gen = model(w, 4, "FALSE", ["Emit"], "gen", probe="TRUE")
    stride = 1 if tier == "thorough" else 12
    probes = [p for p in gen.replays if p.get("probe")]
    progs = [p for p in gen.replays if not p.get("probe")][seed % stride::stride]
    # signing attempts with some but too few of a role's keys: all of them in the thorough tier, one in three otherwise
    progs += probes if tier == "thorough" else probes[seed % 3::3]
    # deeper programs on one role: every program of up to 7 operations over one target without delegations (a target
    # added, signed, re-opened, added again, removed, ...)
    deep = model(w, 7, "TRUE", ["Emit"], "deep", names='{"t1"}', dkeys="{}")
    progs += deep.replays
    # two levels: every program of up to 4 operations after a fixed prefix that builds targets -> d1 -> d2
    # (targets held, added, removed and re-signed at the second level)
    two = model(w, 9, "TRUE", ["Emit"], "deep2", names='{"t1", "t2"}', dkeys="{110}", deep="TRUE")
    progs += two.replays
    if tier == "thorough":
        # long programs (12..25 operations over three targets and both delegated roles) by simulation
        lg = model(w, 25, "TRUE", ["Emit"], "long", names='{"t1", "t2", "t3"}', minops=12, simulate=400, seed=seed)
        seen = set()
        for p in lg.replays:
            k = json.dumps(p["ops"], sort_keys=True)
            if k not in seen:
                seen.add(k)
                progs.append(p)
    pp = os.path.join(w, "progs.ndjson")
    write_ndjson(pp, progs)
    out = os.path.join(w, "out.ndjson")
    vh(["c10", "--programs", pp, "--out", out], timeout=3400)
    rows = read_ndjson(out)
    stats = {"evaluations": 0, "nontrivial": set()}
    judge(v, rows, stats)
    # cross-party flow (EditorX.tla): incoming metadata for an existing delegated role
    xcfg = make_cfg("MC_EditorX.cfg", {}, os.path.join(w, "x.cfg"))
    xg = tlc("EditorX", xcfg, "c10-x", workers=2, timeout=300)
    if not xg.ok:
        raise vlib.ToolError("EditorX.tla: " + (xg.violation or "")[-1500:])
    xp = os.path.join(w, "xcases.ndjson")
    write_ndjson(xp, xg.replays)
    xout = os.path.join(w, "xout.ndjson")
    vh(["c10x", "--cases", xp, "--out", xout], timeout=1800)
    xrows = read_ndjson(xout)
    for r in xrows:
        c, o = r["in"], r["obs"]
        stats["evaluations"] += 1
        stats["nontrivial"].add("x:" + json.dumps(c, sort_keys=True))
        if "setup_error" in o:
            if "panic" in o["setup_error"]:
                v.violation(f"panic in the cross-party flow: {o['setup_error']}", r)
            else:
                v.note_drift(f"cross-party case could not be set up: {o['setup_error'][:200]} ({c})")
            continue
        if o["accepted"] and not c["accept"]:
            v.violation(f"update_delegated_targets replaced the role with metadata of version {c['inc']} (current {c['cur']}) signed by {c['signers']}"
                        f"{' (first signer twice)' if c['twice'] else ''}, threshold {c['thr']} of keys [110, 111]", r)
        elif o["accepted"] and not (o["after"] or {}).get("loaded"):
            v.violation(f"after an accepted update the signed repository does not load: {o['after']}", r)
        elif o["accepted"] and o["after"]["view"]["roles"]["d1"]["version"] != c["inc"]:
            v.violation(f"after an accepted update the role has version {o['after']['view']['roles']['d1']['version']}, incoming was {c['inc']}", r)
        elif not o["accepted"] and c["accept"]:
            v.note_drift(f"genuine incoming metadata refused: {o['err'][:160]} ({c})")
    done = [r for r in rows if r["obs"]["stage"] == "done"]
    samples = [{"program": r["p"]["ops"], "consistent_snapshot": r["consistent"], "client_view": r["obs"].get("view"), "downloads": r["obs"].get("downloads")}
               for r in done[len(done) // 2: len(done) // 2 + 2]]
    samples.append({"cross_party_case": xrows[len(xrows) // 2]["in"], "observed": xrows[len(xrows) // 2]["obs"]})
    cov = {"states": mc.distinct + xg.distinct, "transitions": mc.generated + xg.generated, "traces_validated_against_impl": stats["evaluations"],
           "samples": samples, "evaluations": stats["evaluations"], "distinct_nontrivial": len(stats["nontrivial"]),
           "rule": "programs = every sequence of up to 4 accepted editor operations ending in RepositoryEditor::sign, from Editor.tla with the threshold check switched off in the generator (so that programs the editor must refuse are tried too): add/remove target, version bumps, delegate_role (from targets or from d1; 1-2 keys, threshold 1-2, every path set over the names), sign_targets_editor and sign with adequate and inadequate key sets, change_delegated_targets; names with a space, a non-ASCII character and sub-directories, sizes 0..32 KiB, copy and symlink publication, both consistent_snapshot settings; each is run through the real editor, written, loaded back over an HTTP-like transport and over file:// URLs, every target downloaded; non-trivial = the program delegates or edits a delegated role",
           "programs_refused_by_editor": stats.get("refused", 0), "signing_attempts_with_too_few_keys": stats.get("probes", 0), "exhaustive": tier == "thorough"}
    cov.update(lifecyclelib.run_into(v, PID, tier, seed))
    cov.update(delegclilib.run_into(v, PID, tier, seed))
    return v.finish("model_checking", cov, ["TLC; signatures abstracted to signer sets; the cross-party flow is EditorX.tla: every combination of threshold, current and incoming version and signer set (authorized / foreign keys, one key signing twice), each run through update_delegated_targets, sign, write and load",
                                            "F14 (FilesystemTransport does not percent-decode target names) is a recorded finding"])


def replay(path, seed):
    if json.load(open(path))["replay"].get("delegcli"):
        return delegclilib.replay(path, PID, seed)
    if json.load(open(path))["replay"].get("lifecycle"):
        return lifecyclelib.replay(path, PID, seed)
    rp = json.load(open(path))["replay"]
    w = workdir("c10")
    pp = os.path.join(w, "replay.ndjson")
    # keep the variant: the harness derives consistent_snapshot and sizes from the program index
    write_ndjson(pp, [rp["p"]] * (rp["variant"] + 1))
    out = os.path.join(w, "replay-out.ndjson")
    vh(["c10", "--programs", pp, "--out", out])
    v = Verdict(PID, "quick", seed)
    judge(v, read_ndjson(out)[-1:], {"evaluations": 0, "nontrivial": set()})
    for what, r in v.violations:
        log(f"VIOLATION property={PID} replay={path}")
        log("  " + what)
    return 1 if v.violations else 0
