"""Delegation-graph part of C09: Delegation.tla (graph mode) replayed through the real client."""
import json, os
import vlib
from vlib import tlc, make_cfg, vh, workdir, write_ndjson, read_ndjson, log, tla_set

PID = "C09"


def model(w, maxedges, invs, tag, roles=("a", "b")):
    cfg = make_cfg("MC_Deleg_graph.cfg", {"MaxEdges": maxedges, "Roles": tla_set(list(roles)), "Fuel": 8},
                   os.path.join(w, f"{tag}.cfg"), invariants=invs)
    return tlc("Delegation", cfg, f"c09-{tag}", workers=6, timeout=900)


def judge(v, rows, stats):
    known = {f["id"] for f in vlib.known_findings().get("findings", [])}
    for r in rows:
        c = r["in"]
        stats["evaluations"] += 1
        edges = c["edges"]
        indeg = {}
        for e in edges:
            indeg[e["to"]] = indeg.get(e["to"], 0) + 1
        shared = any(k > 1 for k in indeg.values())
        cyc = c["why"] == "cycle"
        if cyc or shared or r["pad"]:
            stats["nontrivial"].add(json.dumps([edges, r["pad"]]))
        bad = None
        if r["res"] == "panic":
            bad = f"panic while loading: {r['cls']}"
        elif r["res"] == "timeout" or r["cap"]:
            bad = f"update cycle does not terminate on its own: {r['nreq']} requests made when the harness stopped it (delegation edges: {[(e['from'], e['to']) for e in edges]})"
        elif not shared and len(r["reqs"]) > len(edges):
            bad = f"{len(r['reqs'])} requests for delegated roles, the repository publishes {len(edges)} delegations"
        elif r["res"] == "err" and c["ok"] and "Maximum size" in r["cls"]:
            bad = f"legitimate delegated role within the configured limit refused for size: {r['cls']}"
        if bad:
            v.violation(bad, r)
            continue
        if shared and len(r["reqs"]) > len(edges):
            if "F13-shared-role-fetched-per-path" in known:
                v.known("F13-shared-role-fetched-per-path", "a delegated role reachable over several delegation paths is fetched once per path, so the number of requests is bounded by the number of paths, not of delegations")
            else:
                v.violation(f"{len(r['reqs'])} requests for {len(edges)} delegations (shared roles)", r)
                continue
        exp_ok = c["ok"]
        if (r["res"] == "ok") != exp_ok or (exp_ok and r["reqs"] != c["reqs"]):
            v.note_drift(f"edges {[(e['from'], e['to']) for e in edges]}: model ok={c['ok']} ({c['why']}) reqs={c['reqs']}, code {r['res']} ({r['cls'][:100]}) reqs={r['reqs']}")


def run_into(v, cov, tier, seed):
    w = workdir("c09")
    me = 4 if tier == "thorough" else 3
    mc = model(w, me, ["Terminates", "RequestsBoundedByEdges"], "dg-check")
    if not mc.ok:
        raise vlib.ToolError("Delegation.tla (graph mode) violates its invariants:\n" + mc.violation[-2000:])
    gen = model(w, me, ["Emit"], "dg-gen")
    cases = gen.replays
    # layered diamonds: roles shared by several delegation paths
    lroles = [f"l{k}{x}" for k in (1, 2, 3) for x in "xy"]
    cfg = make_cfg("MC_Deleg_graph.cfg", {"Mode": '"layered"', "MaxEdges": 3, "Roles": tla_set(lroles), "Fuel": 8},
                   os.path.join(w, "dg-layered.cfg"), invariants=["Terminates", "Emit"])
    lg = tlc("Delegation", cfg, "c09-dg-layered", workers=2, timeout=600)
    if not lg.ok:
        raise vlib.ToolError("Delegation.tla (layered) failed:\n" + (lg.violation or "")[-1500:])
    cases = cases + lg.replays
    cp = os.path.join(w, "dg-cases.ndjson")
    write_ndjson(cp, cases)
    stats = {"evaluations": 0, "nontrivial": set()}
    samples = []
    for pad in (0, 3):
        out = os.path.join(w, f"dg-out-{pad}.ndjson")
        vh(["deleg", "--cases", cp, "--mode", "graph", "--pad", str(pad), "--out", out], timeout=3000)
        rows = read_ndjson(out)
        judge(v, rows, stats)
        samples += [{"edges": [(e["from"], e["to"]) for e in r["in"]["edges"]], "delegated_files_padded_x": pad,
                     "model": {"ok": r["in"]["ok"], "why": r["in"]["why"]}, "observed": {k: r[k] for k in ("res", "reqs", "nreq")}}
                    for r in rows[len(rows) // 2: len(rows) // 2 + 2]]
    cov["states"] += mc.distinct
    cov["transitions"] += mc.generated
    cov["traces_validated_against_impl"] += stats["evaluations"]
    cov["evaluations"] += stats["evaluations"]
    cov["distinct_nontrivial"] += len(stats["nontrivial"])
    cov["samples"] += samples[:3]
    cov["delegation_graphs"] = {"graphs": len(cases), "max_edges": me,
                                "rule": "every list of up to MaxEdges distinct delegation edges over {targets, a, b} (self-delegation, mutual delegation, shared roles), each loaded with delegated role files of normal size and padded to 3x the size of targets.json"}


def replay(path, seed):
    rp = json.load(open(path))["replay"]
    w = workdir("c09")
    cp = os.path.join(w, "dg-replay.ndjson")
    write_ndjson(cp, [rp["in"]])
    out = os.path.join(w, "dg-replay-out.ndjson")
    vh(["deleg", "--cases", cp, "--mode", "graph", "--pad", str(rp["pad"]), "--out", out])
    v = vlib.Verdict(PID, "quick", seed)
    judge(v, read_ndjson(out), {"evaluations": 0, "nontrivial": set()})
    for what, r in v.violations:
        log(f"VIOLATION property={PID} replay={path}")
        log("  " + what)
    return 1 if v.violations else 0
