"""Delegation-graph part of C09 (filled in with Delegation.tla)."""


def run_into(v, cov, tier, seed):
    cov["delegation_graphs"] = "not yet built"


def replay(path, seed):
    return 0
