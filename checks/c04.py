"""C04 -- freeze protection and the clock guard (TufClient.tla, MC_Freeze)."""
import clientlib
import lifecyclelib

PID = "C04"
FIELDS = ["time", "trusted"]
ASSUME = ["TLC; time abstracted to integer ticks with expiry instants strictly between ticks; the scripted clock hook (--cfg tough_verif) replaces Utc::now() inside Datastore::system_time",
          "margins from seconds to years are realised by scaling the tick (2 s, 1 day, 400 days)"]


def nontrivial(b):
    return any(e["ev"] == "clock" for e in b["hist"]) and any(e.get("s", {}).get("exp") == 0 or e.get("shipped", {}).get("exp") == 0 for e in b["hist"])


def run(tier, seed):
    mcs = [("MC_Freeze", "MC_Freeze_check.cfg", {"MaxCycles": 2 if tier == "thorough" else 1}, "c04"),
           ("MC_FreezeRead", "MC_FreezeRead_check.cfg", {}, "c04-readmc")]
    if tier == "quick":
        gens = [("MC_Freeze", "MC_Freeze_check.cfg", {"Times": "{0, 1}", "MaxCycles": 1}, "c04-day", {"every": 12}),
                ("MC_Freeze", "MC_Freeze_check.cfg", {"Times": "{0, 1}", "MaxCycles": 1}, "c04-sec", {"every": 50, "tick": 2}),
                ("MC_Freeze", "MC_Freeze_check.cfg", {"Times": "{0, 1}", "MaxCycles": 1}, "c04-year", {"every": 50, "tick": 400 * 86400})]
    else:
        gens = [("MC_Freeze", "MC_Freeze_check.cfg", {"Times": "{0, 1}", "MaxCycles": 1}, "c04-day", {}),
                ("MC_Freeze", "MC_Freeze_check.cfg", {"Times": "{0, 1}", "MaxCycles": 1}, "c04-sec", {"tick": 2, "every": 5}),
                ("MC_Freeze", "MC_Freeze_check.cfg", {"Times": "{0, 1}", "MaxCycles": 1}, "c04-year", {"tick": 400 * 86400, "every": 5}),
                ("MC_Freeze", "MC_Freeze_check.cfg", {"Times": "{0, 1, 2, 3, 4}", "MaxCycles": 3, "Exps": "{0, 1, 3, 9}"}, "c04-sim",
                 {"simulate": 4000, "depth": 60})]
    # the freeze attack proper: two cycles on one datastore, the second one is served exactly the documents stored in
    # the first while the clock moves on (same shipped root, no newer roots, enforcement on)
    rp = {"Times": "{0, 1}", "MaxCycles": 2, "Replay": "TRUE", "EnforceChoices": "{TRUE}", "Reads": "FALSE", "MaxReads": 0}
    mcs.append(("MC_Freeze", "MC_Freeze_check.cfg", {"MaxCycles": 2, "Replay": "TRUE"}, "c04-replaymc"))
    gens.append(("MC_Freeze", "MC_Freeze_check.cfg", rp, "c04-replay", {}))
    # enforcement switched off in the second cycle, after an enforcing one recorded the time, the clock going back:
    # nothing may fail for reasons of time (a sample of the 57 k histories)
    us = dict(rp, EnforceChoices="{TRUE, FALSE}")
    gens.append(("MC_Freeze", "MC_Freeze_check.cfg", us, "c04-unsafe2", {"every": 23 if tier == "quick" else 5}))
    # reads after the load: four independent expirations, the clock moving between load and read
    gens.append(("MC_FreezeRead", "MC_FreezeRead_check.cfg", {}, "c04-read", {"every": 2 if tier == "quick" else 1}))
    v, cov, a, _ = clientlib.run_plan(PID, tier, seed, mcs, gens, FIELDS, nontrivial,
        "behaviours = every path of MC_Freeze: each of root(s)/timestamp/snapshot/targets expired or not, an expired intermediate root, both enforcement settings, the clock jumping to any tick between any two phases and before a read; non-trivial = the clock moved and something expires; distinct TLC paths",
        ASSUME)
    # the same property at the system level: Lifecycle.tla behaviours in which tuftool publishes metadata with
    # expirations in the past and a client with a datastore refreshes (enforcement on)
    cov.update(lifecyclelib.run_into(v, PID, tier, seed, scale=0.6))
    return v.finish("model_checking", cov, a)


def replay(path, seed):
    import json
    if json.load(open(path))["replay"].get("lifecycle"):
        return lifecyclelib.replay(path, PID, seed)
    return clientlib.replay_one(PID, path, seed, FIELDS)
