"""C14 -- online-key rotation lets clients recover from fast-forwarded versions (MC_Rollback)."""
import json
import clientlib

PID = "C14"
FIELDS = ["trusted"]
CHAINS = ["tsRotateBack", "snRotate", "tsOverlap", "tsTakesSnKey", "tgRotate", "noChange"]
ASSUME = ["TLC; versions are compared, not counted: model versions 1..3 are realised as 1, 2^40 and 2^63-1 (attacker-inflated) in half of the replays",
          "F2 (trusted root not persisted): a cycle that starts from a shipped root other than the root trusted last is reported as KNOWN-FINDING when it stays locked"]


def nontrivial(b):
    """a cycle saw a newer root than the previous successful one and was served lower versions than stored"""
    roots = [e for e in b["hist"] if e["ev"] == "root" and e.get("o") == "adopt"]
    older = [e for e in b["hist"] if str(e.get("o", "")).startswith("Older") or e.get("o") == "ok"]
    return bool(roots) and bool(older)


def run(tier, seed):
    cyc = 3 if tier == "thorough" else 2
    chains = CHAINS if tier == "thorough" else ["tsRotateBack", "snRotate", "tsOverlap", "tsTakesSnKey"]   # tsOverlap: {1} -> {1,2} -> {2}, old key kept at the first hop; tsTakesSnKey: {1} -> {1,3} where 3 is the snapshot key
    mcs = [("MC_Rollback", "MC_Rollback_check.cfg", {"ChainId": json.dumps(c), "ShipMode": json.dumps("any"),
            "MaxCycles": cyc if c not in ("tsOverlap", "tsTakesSnKey") else 2, "V": 3}, f"c14-{c}") for c in chains]
    gens = []
    for c in chains:
        big = {"vmap": [0, 1, 2 ** 40, 2 ** 63 - 1]}
        gens.append(("MC_Rollback", "MC_Rollback_check.cfg", {"ChainId": json.dumps(c), "ShipMode": json.dumps("any"), "V": 2, "MaxCycles": 2},
                     f"c14-{c}", dict(big, every=3 if tier == "quick" else 1)))
    if tier == "thorough":
        for c in chains:
            gens.append(("MC_Rollback", "MC_Rollback_check.cfg", {"ChainId": json.dumps(c), "ShipMode": json.dumps("any"), "V": 3, "MaxCycles": 5},
                         f"c14-sim-{c}", {"simulate": 2000, "depth": 50, "vmap": [0, 1, 2 ** 40, 2 ** 63 - 1]}))
    v, cov, a, _ = clientlib.run_plan(PID, tier, seed, mcs, gens, FIELDS, nontrivial,
        "behaviours = all 2-cycle histories of MC_Rollback per chain at V=2 with inflated concrete versions (thorough: + simulated 5-cycle histories at V=3); non-trivial = a root was adopted during the walk and a stored version met a served one",
        ASSUME, rollback=True, c14=True)
    return v.finish("model_checking", cov, a)


def replay(path, seed):
    return clientlib.replay_one(PID, path, seed, FIELDS, rollback=True, c14=True)
