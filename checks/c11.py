"""C11 -- canonical JSON output is the OLPC canonical form of the value, and only of it (CJson.tla)."""
import json, os
import vlib
from vlib import tlc, make_cfg, vh, workdir, write_ndjson, read_ndjson, Verdict, log

PID = "C11"


def model(w, maxkeys, maxlen, invs, tag):
    cfg = make_cfg("MC_CJson.cfg", {"MaxKeys": maxkeys, "MaxKeyLen": maxlen}, os.path.join(w, f"{tag}.cfg"), invariants=invs)
    return tlc("CJson", cfg, f"c11-{tag}", workers=8, timeout=1500)


def judge(v, rows, stats):
    for r in rows:
        stats["evaluations"] += 1
        if r["kind"] == "model":
            ms = r["members"]
            if len(ms) > 1:
                stats["nontrivial"].add(json.dumps(ms))
            if not r["ok"]:
                v.violation(f"object with keys {ms} (in this insertion order) serialises to {r['got']!r} (via Value: {r.get('via_value')!r}), the canonical form is {r['expect']!r}", r)
        elif r["kind"] == "float":
            if not r["ok"]:
                v.violation(f"a value containing a floating-point number was serialised: {r['value']}", r)
        else:
            if r.get("nontrivial"):
                stats["nontrivial"].add(r["value"])
            if not r["ok"]:
                v.violation(f"value {r['value']} serialises to {r['got']!r}, the canonical form is {r['expect']!r}", r)


def run(tier, seed):
    w = workdir("c11")
    v = Verdict(PID, tier, seed)
    mc = model(w, 3 if tier == "thorough" else 2, 2, ["FormatterIsCanonical"], "check")
    if not mc.ok:
        raise vlib.ToolError("CJson.tla violates FormatterIsCanonical:\n" + mc.violation[-2000:])
    cases = model(w, 2, 2, ["Emit"], "gen2").replays
    cases += model(w, 3, 1, ["Emit"], "gen3").replays
    if tier == "thorough":
        g = model(w, 3, 2, ["Emit"], "gen32").replays
        cases += g
    cp = os.path.join(w, "cases.ndjson")
    write_ndjson(cp, cases)
    out = os.path.join(w, "out.ndjson")
    vh(["c11", "--cases", cp, "--random", "50000" if tier == "thorough" else "4000", "--seed", str(seed), "--out", out], timeout=3000)
    rows = read_ndjson(out)
    stats = {"evaluations": 0, "nontrivial": set()}
    judge(v, rows, stats)
    mrows = [r for r in rows if r["kind"] == "model"]
    rrows = [r for r in rows if r["kind"] == "random"]
    samples = [{"keys_in_insertion_order": r["members"], "canonical": r["expect"], "formatter": r["got"]} for r in mrows[len(mrows) // 2: len(mrows) // 2 + 2]]
    samples += [{"value": r["value"], "canonical": r["expect"]} for r in rrows[:2]]
    cov = {"states": mc.distinct, "transitions": mc.generated, "traces_validated_against_impl": len(mrows),
           "samples": samples, "evaluations": stats["evaluations"], "distinct_nontrivial": len(stats["nontrivial"]),
           "rule": "model cases = every sequence (insertion order) of up to MaxKeys keys, distinct after NFC, of length 1..2 over {U+0001, space, !, \", A, \\, a, e+U+0301}; each is serialised by the real CanonicalFormatter in that order and through serde_json::Value and compared with Canon of CJson.tla. random cases = JSON values to depth 4 over ASCII incl. control characters and multi-byte characters, serialised in two member orders and compared with the harness's own canonicaliser; values with floats must be refused; non-trivial = an object with at least 2 members or an array",
           "model_cases": len(mrows), "random_cases": len(rrows), "exhaustive": True}
    return v.finish("model_checking", cov, ["TLC enumerates and defines the canonical form for the modelled alphabet (one NFC composition rule); beyond it the oracle is the harness's independent canonicaliser, which knows the same single composition",
                                            "what serde emits for Rust types other than serde_json::Value / maps / sequences / integers / strings is not explored"])


def replay(path, seed):
    rp = json.load(open(path))["replay"]
    w = workdir("c11")
    v = Verdict(PID, "quick", seed)
    if rp["kind"] != "model":
        log("replay of random cases: rerun the check with the same VERIF_SEED")
        return 0
    # re-derive the canonical form from the model for exactly this member sequence is what the
    # generator did; the stored expectation is reused
    cp = os.path.join(w, "replay.ndjson")
    canon = [ord(c) for c in rp["expect"]]
    write_ndjson(cp, [{"members": rp["members"], "canon": canon}])
    out = os.path.join(w, "replay-out.ndjson")
    vh(["c11", "--cases", cp, "--out", out])
    judge(v, read_ndjson(out), {"evaluations": 0, "nontrivial": set()})
    for what, r in v.violations:
        log(f"VIOLATION property={PID} replay={path}")
        log("  " + what)
    return 1 if v.violations else 0
