"""C20 -- tuftool root subcommands keep root.json well-formed, without stale signatures (RootCli.tla)."""
import json, os
import vlib
from vlib import tlc, make_cfg, vh, workdir, write_ndjson, read_ndjson, Verdict, log

PID = "C20"
CONTENT_CMDS = ("add-key", "remove-key", "set-threshold", "bump-version", "set-version", "expire")


def model(w, maxcmds, invs, tag, simulate=None, depth=None, seed=None, view=True):
    cfg = make_cfg("MC_RootCli.cfg", {"MaxCmds": maxcmds}, os.path.join(w, f"{tag}.cfg"), invariants=invs)
    if not view:
        txt = open(cfg).read().replace("VIEW view\n", "")
        open(cfg, "w").write(txt)
    return tlc("RootCli", cfg, f"c20-{tag}", workers=(1 if simulate else 8), timeout=1500, simulate=simulate, depth=depth, seed=seed)


def judge(v, rows, stats):
    for r in rows:
        c = r["in"]
        stats["evaluations"] += 1
        key = json.dumps(c["cmds"], sort_keys=True)
        if any(x["cmd"] == "sign" for x in c["cmds"]):
            stats["nontrivial"].add(key)
        bad = None
        steps = r["steps"]
        if not steps[0]["ok"]:
            v.note_drift(f"setup (init + set-threshold) failed: {steps[0]}")
            continue
        for i, s in enumerate(steps[1:]):
            cmd = s["cmd"]
            a = s["after"]
            name = cmd["cmd"]
            if s["ok"]:
                if not (a.get("json") and a.get("lib_parse")):
                    bad = f"after successful `{name}` the file is not a parseable root: {a}"
                elif not a["keyids_correct"]:
                    bad = f"after successful `{name}` a key is listed under an identifier that is not the digest of its content"
                elif name in CONTENT_CMDS and a["sigs"]:
                    bad = f"`{name}` changed the content but left signatures by keys {a['sigs']} in the file"
                elif name == "sign" and not cmd["cross"] and not cmd["ignore"]:
                    rootkeys = set(a["rolekeys"].get("root", [])) & set(a["keys"])
                    valid = set(a["valid_sigs"]) & rootkeys
                    if len(valid) < int(a["thr"]["root"]):
                        bad = (f"plain `sign -k {cmd['keys']}` exited 0 but the root does not verify under its own keys: threshold {a['thr']['root']}, "
                               f"root keys {sorted(rootkeys)}, valid signatures by root keys {sorted(valid)}, signature entries by {a['sigs']}")
            else:
                if not s["unchanged"]:
                    bad = f"`{name}` exited with an error but changed the file"
            if bad:
                v.violation(bad + f" (command {i + 1} of {[x['cmd'] for x in c['cmds']]})", r)
                break
        if bad:
            continue
        if c.get("witness"):
            continue
        # conformance with RootCli.tla: outcome of every command and the final file
        for s, m in zip(steps[1:], c["cmds"]):
            if s["ok"] != m["ok"]:
                v.note_drift(f"model ok={m['ok']}, tuftool ok={s['ok']} for {m} in {[x['cmd'] for x in c['cmds']]}: {s['out'][:160]}")
                break
        else:
            a, f = steps[-1]["after"], c["final"]
            obs = (sorted(a["keys"]), {k: sorted(x) for k, x in a["rolekeys"].items()}, {k: int(x) for k, x in a["thr"].items()}, sorted(a["sigs"]))
            exp = (sorted(f["keys"]), {k: sorted(x) for k, x in f["rolekeys"].items()}, {k: int(x) for k, x in f["thr"].items()}, sorted(f["sigs"]))
            if obs != exp:
                v.note_drift(f"final file differs from the model: model {exp}, file {obs} after {[x['cmd'] for x in c['cmds']]}")


def run(tier, seed):
    w = workdir("c20")
    v = Verdict(PID, tier, seed)
    tuftool = vlib.build_tuftool()
    mc = model(w, 6 if tier == "quick" else 7, ["PlainSignSelfVerifies", "EditsClearSigs", "NoStaleEntries"], "check")
    if not mc.ok:
        raise vlib.ToolError("RootCli.tla violates its invariants:\n" + mc.violation[-2500:])
    cases = []
    g2 = model(w, 2, ["Emit"], "gen2", view=False)
    cases += g2.replays if tier == "thorough" else g2.replays[seed % 6::6]
    sim = model(w, 6 if tier == "quick" else 12, ["Emit"], "sim", simulate=150 if tier == "quick" else 1000,
                depth=8 if tier == "quick" else 14, seed=seed, view=False)
    seen = set()
    for b in sim.replays:
        k = json.dumps(b["cmds"], sort_keys=True)
        if k not in seen:
            seen.add(k)
            cases.append(b)
    # witnesses: sequences on which the signature-counting variant of `sign` breaks the property
    # (TLC on the model with CountOwnKeysOnly = FALSE); replayed on every run
    wcfg = make_cfg("MC_RootCli.cfg", {"MaxCmds": 6, "CountOwnKeysOnly": "FALSE"}, os.path.join(w, "witness.cfg"), invariants=["EmitBad"])
    wit = tlc("RootCli", wcfg, "c20-witness", workers=8, timeout=900)
    wl = wit.replays[:: max(1, len(wit.replays) // (25 if tier == "quick" else 200))]
    cases += wl
    # ... and sequences on which a `sign --cross-sign` that appended the OTHER root's signature entries
    # (made over other content) would let a later plain sign succeed below the threshold
    w2cfg = make_cfg("MC_RootCli.cfg", {"MaxCmds": 5 if tier == "quick" else 6, "CrossAppends": "TRUE"}, os.path.join(w, "witness2.cfg"), invariants=["EmitBad"])
    wit2 = tlc("RootCli", w2cfg, "c20-witness2", workers=8, timeout=900)
    if not wit2.replays:
        raise vlib.ToolError("RootCli.tla with CrossAppends = TRUE yields no witness sequence")
    cases += wit2.replays[:: max(1, len(wit2.replays) // (25 if tier == "quick" else 200))]
    # ... and sequences on which a `sign` that judged the threshold on the merged entries but wrote only the
    # entries made in this invocation would leave a file below its threshold (sign k1 k2, then sign k1)
    w3cfg = make_cfg("MC_RootCli.cfg", {"MaxCmds": 5, "WriteOnlyNew": "TRUE"}, os.path.join(w, "witness3.cfg"), invariants=["EmitBad"])
    wit3 = tlc("RootCli", w3cfg, "c20-witness3", workers=8, timeout=900)
    if not wit3.replays:
        raise vlib.ToolError("RootCli.tla with WriteOnlyNew = TRUE yields no witness sequence")
    cases += wit3.replays[:: max(1, len(wit3.replays) // (25 if tier == "quick" else 200))]
    if tier == "thorough":
        g3 = model(w, 3, ["Emit"], "gen3", view=False)
        cases += g3.replays[seed % 100::100]
    cp = os.path.join(w, "cases.ndjson")
    write_ndjson(cp, cases)
    out = os.path.join(w, "out.ndjson")
    vh(["c20", "--cases", cp, "--tuftool", tuftool, "--out", out], timeout=3400 if tier == "quick" else 9000)
    rows = read_ndjson(out)
    stats = {"evaluations": 0, "nontrivial": set()}
    judge(v, rows, stats)
    samples = [{"commands": [{k: x[k] for k in x if k != "ok"} for x in r["in"]["cmds"]],
                "outcomes": [(s["ok"], s["after"].get("sigs"), s["after"].get("valid_sigs")) for s in r["steps"][1:]]}
               for r in rows[len(rows) // 2: len(rows) // 2 + 2]]
    cov = {"states": mc.distinct, "transitions": mc.generated, "traces_validated_against_impl": stats["evaluations"],
           "samples": samples, "evaluations": stats["evaluations"], "distinct_nontrivial": len(stats["nontrivial"]),
           "rule": "sequences = behaviours of RootCli.tla over 3 keys (RSA, Ed25519, ECDSA): all sequences of 2 commands (thorough: a hundredth of all of 3) and simulated sequences of 6 (thorough: 12) commands among add-key (root / timestamp / all roles), remove-key (from root / everywhere), set-threshold, bump-version, set-version 2^32, expire, sign with every non-empty key set x --cross-sign (another root with root keys 1 and 2, signed by key 2) x --ignore-threshold; plus witness sequences that TLC finds on three variants of the model (threshold compared with the number of signature entries; cross-signing appending the other root's entries; threshold judged on the merged entries while only this invocation's are written); each run through the tuftool binary built from the working tree; after every invocation the file is parsed by the harness, key ids recomputed and signatures verified independently; non-trivial = the sequence contains a sign",
           "exhaustive": False}
    return v.finish("model_checking", cov, ["TLC checks the command semantics (all sequences up to 6-7 commands with the history hidden); replayed sequences are a sample beyond length 2; the file is judged by the harness's own parser, canonical JSON, digest and signature verification"])


def replay(path, seed):
    rp = json.load(open(path))["replay"]
    w = workdir("c20")
    tuftool = vlib.build_tuftool()
    cp = os.path.join(w, "replay.ndjson")
    write_ndjson(cp, [rp["in"]])
    out = os.path.join(w, "replay-out.ndjson")
    vh(["c20", "--cases", cp, "--tuftool", tuftool, "--out", out])
    v = Verdict(PID, "quick", seed)
    judge(v, read_ndjson(out), {"evaluations": 0, "nontrivial": set()})
    for what, r in v.violations:
        log(f"VIOLATION property={PID} replay={path}")
        log("  " + what)
    return 1 if v.violations else 0
