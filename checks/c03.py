"""C03 -- rollback protection across update cycles sharing a datastore (TufClient.tla, MC_Rollback)."""
import os, json
import vlib, clientlib
from vlib import tlc, Verdict, log, workdir

PID = "C03"
CHAINS = ["tsRotateBack", "snRotate", "tgRotate", "tsThreshold", "tsOverlap", "tsReorder", "noChange"]
FIELDS = ["lockout", "trusted"]


def nontrivial(b):
    """a cycle met a stored document with a different version than the one served"""
    seen = {}
    nt = False
    for e in b["hist"]:
        if e["ev"] in ("ts", "sn", "tg") and e["s"].get("k") == e["ev"]:
            v = e["s"]["v"]
            if e["ev"] in seen and seen[e["ev"]] != v:
                nt = True
            if e.get("o") == "ok":
                seen[e["ev"]] = v
    return nt


def failed_between(b):
    """some cycle other than the last one fails after a phase of it has passed (and stored its document)"""
    cs, cur = [], None
    for e in b["hist"]:
        if e["ev"] == "start":
            cur = []
            cs.append(cur)
        elif cur is not None and e["ev"] in ("ts", "sn", "tg", "snmissing", "tgmissing"):
            cur.append(e)
    return any(c and c[-1].get("o", "ok") != "ok" and any(e.get("o") == "ok" for e in c[:-1]) for c in cs[:-1])


def run(tier, seed):
    v = Verdict(PID, tier, seed)
    states = trans = 0
    mc_runs = []
    plan_mc = [(c, m) for c in CHAINS for m in ("newest", "any")]
    cycles_mc = 2 if tier == "quick" else 3
    if tier == "quick":
        plan_mc = [(c, m) for c in ("tsRotateBack", "tgRotate", "tsReorder") for m in ("newest", "any")]
    for chain, mode in plan_mc:
        if tier == "thorough" and chain == "tsOverlap" and mode == "any":
            cyc = 2   # 17.8 M states at 3 cycles: kept for the manual deep run
        else:
            cyc = cycles_mc
        r = clientlib.model_check("MC_Rollback", "MC_Rollback_check.cfg",
                                  {"ChainId": json.dumps(chain), "ShipMode": json.dumps(mode), "MaxCycles": cyc,
                                   "V": 3}, f"c03-{chain}-{mode}", workers=10)
        if not r.ok:
            raise vlib.ToolError(f"MC_Rollback {chain}/{mode}: model violates an invariant\n{r.violation[-3000:]}")
        states += r.distinct
        trans += r.generated
        mc_runs.append({"chain": chain, "ship": mode, "cycles": cyc, "states": r.distinct, "wall_s": round(r.wall, 1)})
    # behaviours: exhaustive 2-cycle histories at V=2; simulated longer ones in thorough
    behaviours = []
    gen_chains = ["tsRotateBack", "tsReorder", "tgRotate"] if tier == "quick" else CHAINS
    for chain in gen_chains:
        for cons in ("FALSE", "TRUE") if tier == "thorough" else ("FALSE",):
            g, bs = clientlib.generate("MC_Rollback", "MC_Rollback_check.cfg",
                                       {"ChainId": json.dumps(chain), "ShipMode": json.dumps("any"), "V": 2,
                                        "MaxCycles": 2, "Cons": cons}, f"c03-gen-{chain}-{cons}")
            for i, b in enumerate(bs):
                b["id"] = f"{chain}-{cons}-{i}"
            if tier == "quick":
                # every history in which a served version differs from one trusted before, a third of the rest
                bs = [b for i, b in enumerate(bs) if nontrivial(b) or i % 3 == seed % 3]
            behaviours += bs
    # consistent snapshots (version-prefixed file names on the wire, fixed names in the datastore): every 2-cycle
    # history without a root change
    g, bs = clientlib.generate("MC_Rollback", "MC_Rollback_check.cfg",
                               {"ChainId": json.dumps("noChange"), "ShipMode": json.dumps("newest"), "V": 2,
                                "MaxCycles": 2, "Cons": "TRUE"}, "c03-gen-cons")
    for i, b in enumerate(bs):
        b["id"] = f"cons-{i}"
    behaviours += bs
    # three cycles with an intervening failed one: every history (no root change, V=2) in which a cycle that is not
    # the last fails after it has stored at least one document
    g, bs = clientlib.generate("MC_Rollback", "MC_Rollback_check.cfg",
                               {"ChainId": json.dumps("noChange"), "ShipMode": json.dumps("newest"), "V": 2,
                                "MaxCycles": 3, "Cons": "FALSE"}, "c03-gen-3cycles", timeout=1700)
    bs = [b for b in bs if failed_between(b)]
    for i, b in enumerate(bs):
        b["id"] = f"three-{i}"
    behaviours += bs
    if tier == "thorough":
        for chain in CHAINS:
            g, bs = clientlib.generate("MC_Rollback", "MC_Rollback_check.cfg",
                                       {"ChainId": json.dumps(chain), "ShipMode": json.dumps("any"), "V": 4,
                                        "MaxCycles": 6}, f"c03-sim-{chain}", simulate=1500, depth=60, seed=seed)
            for i, b in enumerate(bs):
                b["id"] = f"sim-{chain}-{i}"
                b["vmap"] = [0, 1, 7, 2 ** 40, 2 ** 63 - 1]
            behaviours += bs
    by_id = {b["id"]: b for b in behaviours}
    traces = clientlib.replay(behaviours, "c03-replay")
    strict, obs, mism, nev, tstates = clientlib.validate(traces, "c03")
    st = clientlib.judge(v, PID, traces, by_id, strict, obs, mism, FIELDS, rollback=True)
    nt = sum(1 for b in behaviours if nontrivial(b))
    sample = behaviours[len(behaviours) // 2]
    cov = {"states": states, "transitions": trans, "traces_validated_against_impl": st["traces"],
           "samples": [{"id": sample["id"], "hist": [{k: (e[k] if k != "s" else {x: e["s"].get(x) for x in ("k", "v", "signers")}) for k in e if k in ("ev", "req", "s", "o")} for e in sample["hist"]]}],
           "evaluations": st["cycles"], "distinct_nontrivial": nt,
           "rule": "behaviours = all 2-cycle histories of MC_Rollback at V=2 per chain (thorough: + simulated 6-cycle histories at V=4 with versions up to 2^63-1); non-trivial = some cycle was served a version different from the one trusted before for that role; distinct by construction (TLC behaviours are distinct paths)",
           "trace_events": nev, "explained_by_model": st["explained"], "not_explained": st["unexplained"],
           "model_runs": mc_runs, "exhaustive": tier == "thorough"}
    # the version rules over unbounded versions: RollbackCore.tla (the honest-document core of TufClient's phases,
    # the same rules Lifecycle.tla's Refresh uses and the lifecycle replay binds to the code); TLC on versions
    # 1..3, Apalache by an inductive invariant for all naturals
    rc = tlc("RollbackCore", os.path.join(vlib.SPEC, "MC_RollbackCore.cfg"), "c03-core", workers=2, timeout=300)
    if not rc.ok:
        raise vlib.ToolError("RollbackCore.tla violates IndInv under TLC:\n" + (rc.violation or "")[-1500:])
    ap = vlib.apalache_inductive("RollbackCore", "c03-core")
    cov["rollback_core_unbounded_versions"] = {"tlc_states_versions_1_3": rc.distinct, "apalache_inductive_invariant": "IndInv (TypeOK, Behind, Serves, SeesPublished, NoRollback)",
                                               "apalache_seconds": ap}
    return v.finish("model_checking", cov, [
        "TLC; documents abstracted to (version, signers, pins, expiry); SHA-256 collision-free; harness canonical JSON and signer",
        "F2 (trusted root not persisted) is a recorded finding: pairs of cycles separated by a stale-shipped-root start or an order-only key re-listing are reported as KNOWN-FINDING"])


def replay(path, seed):
    rp = json.load(open(path))["replay"]
    b = rp["behaviour"]
    v = Verdict(PID, "quick", seed)
    traces = clientlib.replay([b], "c03-replay1", shards=1)
    strict, obs, mism, nev, _ = clientlib.validate(traces, "c03-r1")
    clientlib.judge(v, PID, traces, {b["id"]: b}, strict, obs, mism, FIELDS, rollback=True)
    for what, r in v.violations:
        log(f"VIOLATION property={PID} replay={path}")
        log("  " + what)
    return 1 if v.violations else 0
