"""Pipeline shared by the properties decided with TufClient.tla:
model check -> generate behaviours -> replay in the real client -> trace validation (strict, obs)."""
import json
import os
import subprocess
import concurrent.futures as cf
import vlib
from vlib import tlc, make_cfg, workdir, write_ndjson, read_ndjson, log, ToolError, VH

KNOWN_IDS = {f["id"] for f in vlib.known_findings().get("findings", [])}
TRACE_JAVA = ["-Xss1g", "-Dtlc2.tool.queue.IStateQueue=StateDeque"]
EVENTS_PER_BATCH = 60000


def model_check(module, base_cfg, overrides, tag, workers=10, timeout=1500, invariants=None):
    w = workdir(tag)
    cfg = make_cfg(base_cfg, overrides, os.path.join(w, "check.cfg"), invariants=invariants)
    r = tlc(module, cfg, tag + "-mc", workers=workers, timeout=timeout)
    return r


def generate(module, base_cfg, overrides, tag, workers=4, timeout=900, simulate=None, depth=None, seed=None,
             extra_lines=()):
    w = workdir(tag)
    cfg = make_cfg(base_cfg, overrides, os.path.join(w, "gen.cfg"), invariants=["Emit"], extra_lines=extra_lines)
    txt = open(cfg).read().replace("VIEW view\n", "")
    open(cfg, "w").write(txt)
    r = tlc(module, cfg, tag + "-gen", workers=(1 if simulate else workers), timeout=timeout,
            simulate=simulate, depth=depth, seed=seed)
    if not r.ok and not simulate:
        raise ToolError(f"generator {module} failed:\n{r.violation}")
    # distinct behaviours only (simulation repeats)
    seen, out = set(), []
    for b in r.replays:
        key = json.dumps(b["hist"], sort_keys=True)
        if key in seen:
            continue
        seen.add(key)
        out.append(b)
    return r, out


def replay(behaviours, tag, shards=12, extra=None, unit=None, vmap=None, chunk=None):
    """Run the behaviours through the real client; returns list of traces (list of events each)."""
    w = workdir(tag)
    for i, b in enumerate(behaviours):
        b.setdefault("id", f"{tag}-{i}")
        if unit:
            b["unit"] = unit
        if vmap:
            b["vmap"] = vmap
        if chunk is not None:
            b["chunk"] = chunk
    bpath = os.path.join(w, "behaviours.ndjson")
    write_ndjson(bpath, behaviours)
    shards = max(1, min(shards, len(behaviours)))
    procs = []
    for k in range(shards):
        out = os.path.join(w, f"trace-{k}.ndjson")
        procs.append((out, subprocess.Popen([VH, "client", "--behaviours", bpath, "--out", out,
                                             "--shard", f"{k}/{shards}"],
                                            stdout=subprocess.PIPE, stderr=subprocess.STDOUT, text=True)))
    traces = {}
    for out, p in procs:
        o, _ = p.communicate()
        if p.returncode != 0:
            raise ToolError(f"vh client failed: {o[-3000:]}")
        cur = None
        for e in read_ndjson(out):
            if e["ev"] == "reset":
                cur = []
                traces[e["id"]] = cur
            cur.append(e)
    return traces


def _tv_run(args):
    path, mode, consts, tag = args
    w = workdir(tag)
    over = {"Mode": json.dumps(mode)}
    over.update(consts)
    cfg = make_cfg("Trace_Client.cfg", over, os.path.join(w, f"trace-{mode}.cfg"))
    r = tlc("Trace_Client", cfg, tag, workers=1, timeout=1800, env={"TRACE": path}, java_opts=TRACE_JAVA, heap="6g")
    if not r.ok:
        raise ToolError(f"trace validation run failed ({mode}):\n{r.violation or r.output[-2000:]}")
    verdicts, mism = {}, {}
    with open(os.path.join(w, "tlc.out")) as f:
        for line in f:
            if line.startswith('<<"VERDICT", '):
                v = json.loads(json.loads(line.strip()[len('<<"VERDICT", '):-2]))
                verdicts[(v["id"], v["l"])] = v
            elif line.startswith('<<"MISMATCH", '):
                m = json.loads(json.loads(line.strip()[len('<<"MISMATCH", '):-2]))
                mism.setdefault(m["id"], m)
    return mode, verdicts, mism, r.generated


def validate(traces, tag, consts=None, parallel=4):
    """traces: dict id -> events. Returns (strict verdicts by id, obs verdicts by id, mismatches, n_events)."""
    consts = consts or {}
    w = workdir(tag)
    batches, cur, n = [], [], 0
    for tid, evs in traces.items():
        if n + len(evs) > EVENTS_PER_BATCH and cur:
            batches.append(cur)
            cur, n = [], 0
        cur.append(evs)
        n += len(evs)
    if cur:
        batches.append(cur)
    jobs = []
    for i, b in enumerate(batches):
        path = os.path.join(w, f"tv-batch-{i}.ndjson")
        write_ndjson(path, [e for evs in b for e in evs])
        jobs.append((path, "strict", consts, f"{tag}-tv{i}s"))
        jobs.append((path, "obs", consts, f"{tag}-tv{i}o"))
    strict, obs, mism, states = {}, {}, {}, 0
    with cf.ThreadPoolExecutor(max_workers=parallel) as ex:
        for mode, verdicts, mm, gen in ex.map(_tv_run, jobs):
            tgt = strict if mode == "strict" else obs
            for (tid, l), v in verdicts.items():
                tgt.setdefault(tid, []).append(v)
            if mode == "strict":
                mism.update(mm)
            states += gen
    for d in (strict, obs):
        for k in d:
            d[k].sort(key=lambda v: v["l"])
    return strict, obs, mism, sum(len(e) for e in traces.values()), states


def judge(v, pid, traces, behaviours_by_id, strict, obs, mism, fields, rollback=False, c14=False):
    """Apply the verdicts. `fields`: verdict fields that must be true for this property.
    For a trace strict mode explains, its verdicts (evaluated on the model state that the code's
    behaviour was matched to) decide; for one it cannot explain, the observational verdicts decide:
    all true => DRIFT, otherwise VIOLATION."""
    stats = {"traces": len(traces), "explained": 0, "unexplained": 0, "cycles": 0}
    for tid, evs in traces.items():
        explained = tid not in mism
        vs = strict.get(tid, []) if explained else obs.get(tid, [])
        if explained:
            stats["explained"] += 1
        else:
            stats["unexplained"] += 1
        bad = None
        if explained:
            # self-check of the observational predicates: on a behaviour the model explains they
            # must not be stricter than the model's own invariants
            sv = {x["l"]: x for x in strict.get(tid, [])}
            for ov in obs.get(tid, []):
                x = sv.get(ov["l"])
                for f in fields + (["rollbackKF"] if rollback else []) + (["c14"] if c14 else []):
                    if x is not None and f in ov and ov[f] is False and x.get(f) is True:
                        stats["obs_stricter"] = stats.get("obs_stricter", 0) + 1
                        if stats["obs_stricter"] <= 5:
                            log(f"NOTE: observational predicate '{f}' is false where the model's is true (trace {tid}, event {ov['l']})")
        for ver in vs:
            stats["cycles"] += 1
            for f in fields:
                if f in ver and ver[f] is False:
                    bad = bad or (f, ver)
            if rollback and ver.get("rollback") is False:
                if ver.get("rollbackKF") is False:
                    bad = bad or ("rollback", ver)
                elif not ({"F2-stale-shipped-root", "F2-key-order-only"} <= KNOWN_IDS):
                    bad = bad or ("rollback (finding not listed in known_findings.json)", ver)
                else:
                    if ver.get("rollbackStale") is True:
                        v.known("F2-stale-shipped-root", "a later cycle accepted older metadata after a cycle that started from a shipped root older than a root the client had already verified (the trusted root is not persisted)")
                    else:
                        v.known("F2-key-order-only", "stored timestamp/snapshot deleted because a newer root lists an unchanged key set in another order")
            if c14 and ver.get("c14applies") and ver.get("c14any") is False:
                if ver.get("c14") is False or "F2-c14-shipped-root-differs" not in KNOWN_IDS:
                    bad = bad or ("c14", ver)
                else:
                    v.known("F2-c14-shipped-root-differs", "after an online-key rotation the client stays locked to inflated stored versions when the cycle starts from a shipped root other than the one trusted last (rotation is detected against the shipped root)")
        if bad:
            f, ver = bad
            v.violation(f"{pid}: predicate '{f}' is false on what the code did (trace {tid}, event {ver['l']}, "
                        f"result {ver.get('res')}, {'explained by the model' if explained else 'not explained by the model'})",
                        {"behaviour": behaviours_by_id.get(tid), "trace": evs, "verdict": ver,
                         "mismatch": mism.get(tid)})
        elif not explained:
            m = mism[tid]
            v.note_drift(f"trace {tid} not explained at event {m['l']} ({m['ev']}): model pc={m['pc']} res={m['res']}, "
                         f"code logged {json.dumps(m['got'])[:300]}")
    return stats


def slim(e):
    """a readable form of a hist/trace event for samples"""
    d = {k: e[k] for k in e if k in ("ev", "req", "o", "now", "enforce", "res")}
    if "s" in e:
        d["s"] = {x: e["s"][x] for x in ("k", "v", "signers", "exp", "len", "b") if x in e["s"]}
        if "pin" in e["s"]:
            d["s"]["pin"] = {"v": e["s"]["pin"]["v"], "len": e["s"]["pin"]["len"], "hash": e["s"]["pin"]["h"].get("k") != "none"}
    if "shipped" in e:
        d["shipped"] = {x: e["shipped"][x] for x in ("v", "signers", "rk", "rthr", "exp") if x in e["shipped"]}
    return d


def run_plan(pid, tier, seed, mcs, gens, fields, nontrivial, rule, assumptions, rollback=False, c14=False,
             exhaustive=True, tvconsts=None, group_key=None):
    """mcs: [(module, base_cfg, overrides, tag)] model-check runs.
    gens: [(module, base_cfg, overrides, tag, opts)] behaviour generators; opts: simulate, depth, unit, vmap,
          chunk, tick, limits (override dict merged into behaviour limits), every (subsample stride).
    group_key(b) -> dict of Trace_Client constants for that behaviour (traces are validated per group)."""
    v = vlib.Verdict(pid, tier, seed)
    states = trans = 0
    mc_runs = []
    for module, base, over, tag in mcs:
        r = model_check(module, base, over, tag)
        if not r.ok:
            raise ToolError(f"{module} ({tag}) violates an invariant of the model:\n{r.violation[-3000:]}")
        states += r.distinct
        trans += r.generated
        mc_runs.append({"module": module, "tag": tag, "states": r.distinct, "wall_s": round(r.wall, 1)})
    behaviours = []
    for module, base, over, tag, opts in gens:
        g, bs = generate(module, base, over, tag, simulate=opts.get("simulate"), depth=opts.get("depth"),
                         seed=seed if opts.get("simulate") else None, timeout=opts.get("timeout", 900),
                         extra_lines=opts.get("extra_lines", ()))
        stride = opts.get("every", 1)
        if stride > 1:
            bs = bs[seed % stride::stride]
        for i, b in enumerate(bs):
            b["id"] = f"{tag}-{i}"
            for k in ("unit", "vmap", "chunk", "tick"):
                if k in opts:
                    b[k] = opts[k]
            if "limits" in opts:
                b["limits"] = dict(b.get("limits", {}), **opts["limits"])
        behaviours += bs
    by_id = {b["id"]: b for b in behaviours}
    traces = replay(behaviours, pid.lower() + "-replay")
    groups = {}
    for tid, evs in traces.items():
        b = by_id[tid]
        c = dict(tvconsts or {})
        c.update({"LimRoot": b["limits"]["root"], "LimTs": b["limits"]["ts"], "LimSn": b["limits"]["sn"],
                  "LimTg": b["limits"]["tg"], "MaxRootUpdates": b["limits"]["updates"],
                  "Unit": b.get("unit", 4096), "Chunk": b.get("chunk", 0)})
        if group_key:
            c.update(group_key(b))
        groups.setdefault(json.dumps(c, sort_keys=True), {})[tid] = evs
    st = {"traces": 0, "explained": 0, "unexplained": 0, "cycles": 0, "obs_stricter": 0}
    nev = 0
    for gi, (ck, trs) in enumerate(groups.items()):
        strict, obs, mism, n, _ = validate(trs, f"{pid.lower()}-g{gi}", json.loads(ck))
        s = judge(v, pid, trs, by_id, strict, obs, mism, fields, rollback=rollback, c14=c14)
        for k in s:
            st[k] = st.get(k, 0) + s[k]
        nev += n
    nts = [b for b in behaviours if nontrivial(b)]
    samples = [{"id": b["id"], "hist": [slim(e) for e in b["hist"]]} for b in (nts[:1] + nts[len(nts) // 2:len(nts) // 2 + 1])]
    if not samples and behaviours:
        samples = [{"id": behaviours[0]["id"], "hist": [slim(e) for e in behaviours[0]["hist"]]}]
    cov = {"states": states, "transitions": trans, "traces_validated_against_impl": st["traces"],
           "samples": samples, "evaluations": st["cycles"], "distinct_nontrivial": len(nts), "rule": rule,
           "behaviours": len(behaviours), "trace_events": nev, "explained_by_model": st["explained"],
           "not_explained": st["unexplained"], "obs_predicates_stricter_than_model": st.get("obs_stricter", 0),
           "model_runs": mc_runs, "exhaustive": exhaustive}
    return v, cov, assumptions, behaviours


def replay_one(pid, path, seed, fields, rollback=False, c14=False, tvconsts=None):
    rp = json.load(open(path))["replay"]
    b = rp["behaviour"]
    v = vlib.Verdict(pid, "quick", seed)
    if b.get("fixture"):
        # a violation found on the trace of one of the repository's own fixtures: record and validate them again
        fixture_traces(v, pid, fields, pid.lower() + "-fx-replay")
        for what, r in v.violations:
            log(f"VIOLATION property={pid} replay={path}")
            log("  " + what)
        return 1 if v.violations else 0
    traces = replay([b], pid.lower() + "-replay1", shards=1)
    c = dict(tvconsts or {})
    c.update({"LimRoot": b["limits"]["root"], "LimTs": b["limits"]["ts"], "LimSn": b["limits"]["sn"],
              "LimTg": b["limits"]["tg"], "MaxRootUpdates": b["limits"]["updates"],
              "Unit": b.get("unit", 4096), "Chunk": b.get("chunk", 0)})
    strict, obs, mism, nev, _ = validate(traces, pid.lower() + "-r1", c)
    judge(v, pid, traces, {b["id"]: b}, strict, obs, mism, fields, rollback=rollback, c14=c14)
    for what, r in v.violations:
        log(f"VIOLATION property={pid} replay={path}")
        log("  " + what)
    for fid, h in v.known_hits.items():
        log(f"KNOWN-FINDING: property={pid} {fid}: {h['what']}")
    return 1 if v.violations else 0


def fixture_traces(v, pid, fields, tag):
    """The repository's own test fixtures (tough/tests/data: tuf-reference-impl, consistent-snapshots, rotated-root,
    dubious-role-names, expired-repository safe/unsafe, safe-target-paths) loaded twice each by the real client
    through the recording transport; the recorded traces - real RSA / Ed25519 documents mapped to model records by an
    abstraction function - are validated against TufClient with Trace_Client in both modes.  A copy of the traces
    with one recorded field corrupted must be rejected (the binding is live)."""
    w = workdir(tag)
    out = os.path.join(w, "fixtures.ndjson")
    vlib.vh(["fixtures", "--out", out], timeout=600)
    traces, cur = {}, None
    for e in read_ndjson(out):
        if e["ev"] == "reset":
            cur = e["id"]
            traces[cur] = []
        traces[cur].append(e)
    if len(traces) < 5:
        raise ToolError(f"only {len(traces)} fixture traces recorded")
    consts = {"LimRoot": 1, "LimTs": 1, "LimSn": 1, "LimTg": 1, "Unit": 16777216, "MaxRootUpdates": 1024}
    strict, obs, mism, n, _ = validate(traces, tag + "-tv", consts, parallel=2)
    st = judge(v, pid, traces, {tid: {"fixture": tid} for tid in traces}, strict, obs, mism, fields)
    # negative control: the reported version of the first successful cycle of every trace is changed
    bad = json.loads(json.dumps(traces))
    touched = 0
    for tid, evs in bad.items():
        for e in evs:
            if e["ev"] == "end" and e["res"] == "ok":
                e["vers"]["sn"] += 1
                touched += 1
                break
    _, _, mism2, _, _ = validate(bad, tag + "-neg", consts, parallel=2)
    rejected = sum(1 for tid, evs in bad.items() if tid in mism2)
    expected = sum(1 for tid, evs in bad.items() if any(e["ev"] == "end" and e["res"] == "ok" for e in evs))
    if rejected != expected:
        raise ToolError(f"trace validation accepted corrupted fixture traces ({rejected} of {expected} rejected)")
    return {"fixture_traces": len(traces), "fixture_cycles": st["cycles"], "fixture_events": n, "fixture_traces_explained_by_model": st["explained"],
            "fixture_traces_not_explained": st["unexplained"], "corrupted_copies_rejected": f"{rejected} of {expected}"}


SUITE_TARGET = vlib.TUFTOOL_TARGET      # shared with the tuftool binary build: same flags, same dependencies


def build_suite_tests():
    """test binaries of tough and tuftool with the hooks compiled in (cfg tough_verif)"""
    import fcntl
    env = {"CARGO_NET_OFFLINE": "true", "CARGO_TARGET_DIR": SUITE_TARGET, "CARGO_PROFILE_DEV_DEBUG": "0",
           "CARGO_PROFILE_TEST_DEBUG": "0", "RUSTFLAGS": "--cfg tough_verif --check-cfg cfg(tough_verif)"}
    with open(os.path.join(vlib.WORK, ".build-tuftool.lock"), "w") as lk:
        fcntl.flock(lk, fcntl.LOCK_EX)
        p = vlib.sh(["cargo", "test", "--offline", "--quiet", "-p", "tough", "-p", "tuftool", "--no-run"], cwd=vlib.REPO, env=env, check=False, timeout=3600)
    if p.returncode != 0:
        raise ToolError("building the repository's tests with the hook failed:\n" + (p.stdout or "")[-4000:])
    return env


def suite_traces(v, pid, fields, tag):
    """The repository's own test suite (cargo test -p tough -p tuftool) is run with the load-tracing hook on
    (tough::verif_hooks::traced_load, TOUGH_VERIF_TRACE): every RepositoryLoader::load the tests perform - in the
    test processes and in the tuftool processes they spawn - writes what it was given, what it pulled from the
    transport, its result and the datastore contents.  The records are mapped to Trace_Client events by the
    abstraction function of `vh fixtures` and validated against TufClient in both modes."""
    w = workdir(tag)
    rec = os.path.join(w, "records")
    subprocess.run(["rm", "-rf", rec])
    os.makedirs(rec)
    env = build_suite_tests()
    env = dict(env, TOUGH_VERIF_TRACE=rec)
    p = vlib.sh(["cargo", "test", "--offline", "--quiet", "-p", "tough", "-p", "tuftool", "--", "--test-threads", "8"], cwd=vlib.REPO, env=env, check=False, timeout=3600)
    tests_ok = p.returncode == 0
    out = os.path.join(w, "suite.ndjson")
    vlib.vh(["suite-traces", "--dir", rec, "--out", out], timeout=600)
    traces, cur = {}, None
    for e in read_ndjson(out):
        if e["ev"] == "reset":
            cur = e["id"]
            traces[cur] = []
        traces[cur].append(e)
    if len(traces) < 20:
        raise ToolError(f"only {len(traces)} loads were recorded while the repository's tests ran (tests ok: {tests_ok}):\n" + (p.stdout or "")[-1500:])
    groups = {}
    for tid, evs in traces.items():
        groups.setdefault(evs[0]["limits"]["updates"], {})[tid] = evs
    st = {"traces": 0, "explained": 0, "unexplained": 0, "cycles": 0}
    nev = 0
    for upd, trs in groups.items():
        consts = {"LimRoot": 1, "LimTs": 1, "LimSn": 1, "LimTg": 1, "Unit": 16777216, "MaxRootUpdates": upd}
        strict, obs, mism, n, _ = validate(trs, f"{tag}-tv{upd}", consts, parallel=2)
        s = judge(v, pid, trs, {tid: {"fixture": tid} for tid in trs}, strict, obs, mism, fields)
        for k in st:
            st[k] += s[k]
        nev += n
    results = {}
    for evs in traces.values():
        r = [e for e in evs if e["ev"] == "end"][0]["res"]
        results[r] = results.get(r, 0) + 1
    return {"suite_loads_recorded": len(traces), "suite_trace_events": nev, "suite_traces_explained_by_model": st["explained"],
            "suite_traces_not_explained": st["unexplained"], "suite_load_results": results, "suite_tests_passed": tests_ok}
