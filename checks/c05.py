"""C05 -- each role matches what the role above pinned (TufClient.tla, MC_Pins)."""
import clientlib

PID = "C05"
FIELDS = ["pins", "names", "trusted"]
ASSUME = ["TLC; a file digest is modelled as the identity of the file (SHA-256 collision-free); byte variants are a compact and a pretty-printed spelling, lengths are realised by padding with insignificant whitespace"]


def nontrivial(b):
    """the served snapshot or targets differs from what was pinned (version, digest or length)"""
    pin = None
    for e in b["hist"]:
        s = e.get("s", {})
        if e["ev"] in ("sn", "tg") and pin is not None and s.get("k") in ("sn", "tg"):
            if s["v"] != pin["v"] or (pin["len"] and s["len"] > pin["len"]) or (pin["h"].get("k") != "none" and (s["b"] != 1 or s["len"] != 1)):
                return True
        if "pin" in s:
            pin = s["pin"]
    return False


def run(tier, seed):
    mcs = [("MC_Pins", "MC_Pins_check.cfg", {"Cons": c, "V": 3 if tier == "thorough" else 2}, f"c05-{c}") for c in ("TRUE", "FALSE")]
    if tier == "quick":
        gens = [("MC_Pins", "MC_Pins_check.cfg", {"Cons": "TRUE"}, "c05-cons", {"every": 2}),
                ("MC_Pins", "MC_Pins_check.cfg", {"Cons": "FALSE"}, "c05-plain", {"every": 4})]
    else:
        gens = [("MC_Pins", "MC_Pins_check.cfg", {"Cons": "TRUE"}, "c05-cons", {}),
                ("MC_Pins", "MC_Pins_check.cfg", {"Cons": "FALSE"}, "c05-plain", {}),
                ("MC_Pins", "MC_Pins_check.cfg", {"Cons": "TRUE", "V": 3}, "c05-v3", {"timeout": 1500})]
    v, cov, a, _ = clientlib.run_plan(PID, tier, seed, mcs, gens, FIELDS, nontrivial,
        "behaviours = every path of MC_Pins: timestamp pinning snapshot by version, optionally digest and length; any published snapshot (version, spelling, size, its own pin of targets); any published targets; non-trivial = a served file differs from its pin in version, digest or length",
        ASSUME)
    return v.finish("model_checking", cov, a)


def replay(path, seed):
    return clientlib.replay_one(PID, path, seed, FIELDS)
