"""C05 -- each role matches what the role above pinned (TufClient.tla, MC_Pins)."""
import clientlib

PID = "C05"
FIELDS = ["pins", "names", "trusted"]
ASSUME = ["TLC; a file digest is modelled as the identity of the file (SHA-256 collision-free); byte variants are a compact and a pretty-printed spelling, lengths are realised by padding with insignificant whitespace"]


def nontrivial(b):
    """the served snapshot or targets differs from what was pinned (version, digest or length)"""
    pin = None
    for e in b["hist"]:
        s = e.get("s", {})
        if e["ev"] in ("sn", "tg") and pin is not None and s.get("k") in ("sn", "tg"):
            if s["v"] != pin["v"] or (pin["len"] and s["len"] > pin["len"]) or (pin["h"].get("k") != "none" and (s["b"] != 1 or s["len"] != 1)):
                return True
        if "pin" in s:
            pin = s["pin"]
    return False


def run(tier, seed):
    mcs = [("MC_Pins", "MC_Pins_check.cfg", {"Cons": c, "V": 3 if tier == "thorough" else 2}, f"c05-{c}") for c in ("TRUE", "FALSE")]
    if tier == "quick":
        gens = [("MC_Pins", "MC_Pins_check.cfg", {"Cons": "TRUE"}, "c05-cons", {"every": 2}),
                ("MC_Pins", "MC_Pins_check.cfg", {"Cons": "FALSE"}, "c05-plain", {"every": 4})]
    else:
        gens = [("MC_Pins", "MC_Pins_check.cfg", {"Cons": "TRUE"}, "c05-cons", {}),
                ("MC_Pins", "MC_Pins_check.cfg", {"Cons": "FALSE"}, "c05-plain", {}),
                ("MC_Pins", "MC_Pins_check.cfg", {"Cons": "TRUE", "V": 3}, "c05-v3", {"timeout": 1500})]
    v, cov, a, _ = clientlib.run_plan(PID, tier, seed, mcs, gens, FIELDS, nontrivial,
        "behaviours = every path of MC_Pins: timestamp pinning snapshot by version, optionally digest and length; any published snapshot (version, spelling, size, its own pin of targets); any published targets; non-trivial = a served file differs from its pin in version, digest or length",
        ASSUME)
    delegated_pins(v, cov)
    cov.update(clientlib.fixture_traces(v, PID, FIELDS, "c05-fx"))
    return v.finish("model_checking", cov, a)


def delegated_pins(v, cov):
    """Delegated roles: listed in the trusted snapshot, with exactly the listed version (Delegation.tla PinCases)."""
    import os, json
    import vlib
    from vlib import tlc, make_cfg, vh, workdir, write_ndjson, read_ndjson
    w = workdir("c05")
    cfg = make_cfg("MC_Deleg_graph.cfg", {"MaxEdges": 0}, os.path.join(w, "pins.cfg"), invariants=["EmitPins"])
    g = tlc("Delegation", cfg, "c05-pins", workers=1, timeout=300)
    cases = g.replays[0]["cases"] if g.replays else []
    cp = os.path.join(w, "pin-cases.ndjson")
    write_ndjson(cp, cases)
    out = os.path.join(w, "pin-out.ndjson")
    vh(["deleg", "--mode", "pins", "--cases", cp, "--out", out])
    rows = read_ndjson(out)
    for r in rows:
        c, o = r["in"]["c"], r["obs"]
        exp = r["in"]["accept"]
        if o["cls"].startswith("panic"):
            v.violation(f"panic loading a repository with a delegated role: {o['cls']}", r)
        elif o["loaded"] and not exp:
            v.violation(f"delegated role at depth {c['depth']} trusted although " + ("it is not listed in the snapshot" if not c["listed"] else f"the snapshot lists version {c['pinned']} and the file has version {c['file']}"), r)
        elif o["loaded"] and c["cons"] and o["expected_name"] not in o["reqs"]:
            v.violation(f"consistent snapshots: requested {o['reqs']}, the snapshot names {o['expected_name']}", r)
        elif not o["loaded"] and exp:
            v.note_drift(f"delegated role matching its snapshot entry refused: {o['cls']} ({c})")
    cov["evaluations"] += len(rows)
    cov["traces_validated_against_impl"] += len(rows)
    cov["distinct_nontrivial"] += sum(1 for r in rows if not r["in"]["accept"])
    cov["delegated_role_pins"] = {"cases": len(rows), "rule": "depth 1..2 x listed or not x listed version 1..2 x file version 1..2 x consistent_snapshot"}


def replay(path, seed):
    import json
    rp = json.load(open(path))["replay"]
    if "in" in rp and "c" in rp.get("in", {}):
        v = __import__("vlib").Verdict(PID, "quick", seed)
        cov = {"evaluations": 0, "traces_validated_against_impl": 0, "distinct_nontrivial": 0}
        delegated_pins(v, cov)
        return 1 if v.violations else 0
    return clientlib.replay_one(PID, path, seed, FIELDS)
