"""C06 -- target bytes delivered to the caller are exactly the signed content (Stream.tla)."""
import json, os
import vlib
from vlib import tlc, make_cfg, vh, workdir, write_ndjson, read_ndjson, Verdict, log

PID = "C06"


def stream_model(w, maxlen, saving, prev, invs, tag):
    cfg = make_cfg("MC_Stream.cfg", {"MaxLen": maxlen, "Saving": saving, "Previous": "<- " + prev},
                   os.path.join(w, f"{tag}.cfg"), invariants=invs)
    return tlc("Stream", cfg, f"{PID.lower()}-{tag}", workers=6, timeout=900)


def judge_read(v, rows, stats):
    for r in rows:
        b, o = r["b"], r["obs"]
        stats["evaluations"] += 1
        key = (r["consistent"], r["delegated"], r["unit"], json.dumps(b["full"]), b["n"])
        if b["kind"] != "exact":
            stats["nontrivial"].add(key)
        bad = None
        if o["st"] in ("panic", "load-failed", "none"):
            bad = f"read_target: {o['st']} {o['cls']}"
        elif o["st"] == "ok" and not o["digest_ok"]:
            bad = "stream ended without error but the delivered bytes do not have the signed digest"
        elif o["delivered_bytes"] > o["signed_len"]:
            bad = f"{o['delivered_bytes']} bytes handed to the caller, signed length is {o['signed_len']}"
        elif b["kind"] != "exact" and o["st"] == "ok":
            bad = f"content variant '{b['kind']}' was delivered without error"
        elif b["kind"] == "exact" and o["st"] != "ok":
            bad = f"the signed content itself was refused: {o['cls']}"
        elif o["unknown"] != "none" or o["unknown_reqs"] != 0:
            bad = f"a name without an entry yields {o['unknown']} after {o['unknown_reqs']} requests instead of 'not found'"
        elif o["reqs"] != [o["expected_key"]]:
            bad = f"requested {o['reqs']}, expected exactly {o['expected_key']} (consistent_snapshot={r['consistent']})"
        if bad:
            v.violation(bad, r)
        elif (o["st"], o["cls"] if o["st"] == "err" else "none", o["delivered_units"]) != (b["st"], b["cls"] if b["st"] == "err" else "none", b["delivered"]):
            v.note_drift(f"model {b['st']}/{b['cls']}/{b['delivered']} units, code {o['st']}/{o['cls']}/{o['delivered_units']} units for {b['kind']} n={b['n']}")


def run(tier, seed):
    w = workdir("c06")
    v = Verdict(PID, tier, seed)
    maxlen = 4 if tier == "thorough" else 3
    mc = stream_model(w, maxlen, "FALSE", "OnlyNone", ["EndsOkImpliesDigest", "NeverMoreThanSignedLength", "OtherContentErrs", "ExactSucceeds"], "check")
    if not mc.ok:
        raise vlib.ToolError("Stream.tla violates its invariants:\n" + mc.violation[-2000:])
    gen = stream_model(w, maxlen, "FALSE", "OnlyNone", ["Emit"], "gen")
    beh = gen.replays
    bp = os.path.join(w, "beh.ndjson")
    write_ndjson(bp, beh)
    stats = {"evaluations": 0, "nontrivial": set()}
    units = [1, 7, 4096, 16384] if tier == "thorough" else [1, 4096]
    rows_all = []
    for i, u in enumerate(units):
        out = os.path.join(w, f"out-{u}.ndjson")
        variants = "ff,tf,ft,tt" if (tier == "thorough" or i == 0) else "tf,ft"
        vh(["c06", "--behaviours", bp, "--out", out, "--unit", str(u), "--variants", variants])
        rows = read_ndjson(out)
        judge_read(v, rows, stats)
        rows_all += rows[:2]
    # unknown names: no data and no request
    out = os.path.join(w, "unknown.ndjson")
    samples = [{"kind": r["b"]["kind"], "n": r["b"]["n"], "chunks": r["b"]["full"], "unit": r["unit"],
                "consistent": r["consistent"], "delegated": r["delegated"], "observed": {k: r["obs"][k] for k in ("st", "cls", "delivered_bytes")}}
               for r in rows_all[:4]]
    cov = {"states": mc.distinct, "transitions": mc.generated, "traces_validated_against_impl": stats["evaluations"],
           "samples": samples, "evaluations": stats["evaluations"], "distinct_nontrivial": len(stats["nontrivial"]),
           "rule": "behaviours = every terminal path of Stream.tla: signed content of 0..MaxLen units, served as itself / one unit flipped at every position / truncated at every position / extended by 1..2 units / another signed target's content, in every chunking, or cut short by a transport error or continued without end after every chunk; each replayed for top-level and delegated targets, both consistent_snapshot settings and unit sizes 1 B .. 16 KiB; non-trivial = served content differs from the signed content",
           "behaviours": len(beh), "exhaustive": True}
    return v.finish("model_checking", cov, ["TLC; content abstracted to units, digest = identity on content; the transport script is concretised with unit sizes up to 16 KiB (64 KiB contents)"])


def replay(path, seed):
    rp = json.load(open(path))["replay"]
    w = workdir("c06")
    bp = os.path.join(w, "replay-beh.ndjson")
    write_ndjson(bp, [rp["b"]])
    out = os.path.join(w, "replay-out.ndjson")
    var = ("t" if rp["consistent"] else "f") + ("t" if rp["delegated"] else "f")
    vh(["c06", "--behaviours", bp, "--out", out, "--unit", str(rp["unit"]), "--variants", var])
    v = Verdict(PID, "quick", seed)
    judge_read(v, read_ndjson(out), {"evaluations": 0, "nontrivial": set()})
    for what, r in v.violations:
        log(f"VIOLATION property={PID} replay={path}")
        log("  " + what)
    return 1 if v.violations else 0
