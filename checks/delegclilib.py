"""DelegCli.tla: the tuftool delegation workflow (create-role, add-role, update-delegated-targets, add-key,
remove-key, remove, update --role) as a protocol between the owner and the holders of delegated roles.
Shared by C07 and C10: TLC checks the protocol model, generates behaviours (simulation over four plan
families and exhaustive enumeration of the owner's key operations), the harness replays them through the tuftool binary, inspects the published repository
independently after every command and loads it with a fresh client; the property predicates are evaluated on
the observed data, any other disagreement with the model is DRIFT."""
import json, os, re
import vlib
from vlib import tlc, make_cfg, vh, workdir, write_ndjson, read_ndjson, log

INVS = ["PublishedLoads", "PathsHold"]
MATCH = {"A": lambda n: n.startswith("a"), "B": lambda n: n.startswith("a2")}


def _cfg(w, name, overrides, invariants, props=True):
    cfg = make_cfg("MC_DelegCli.cfg", overrides, os.path.join(w, name), invariants=invariants)
    if not props:
        txt = re.sub(r"^PROPERTIES.*$", "", open(cfg).read(), flags=re.M)
        open(cfg, "w").write(txt)
    return cfg


def model_check(w, tag, steps):
    g = tlc("MC_DelegCli", _cfg(w, "mc.cfg", {"MaxSteps": steps}, INVS), tag + "-mc", workers=6, timeout=1500, coverage=True)
    if not g.ok:
        raise vlib.ToolError("DelegCli.tla violates its properties:\n" + g.violation[-2000:])
    return g


def generate(w, tag, seed, num, steps, tier="quick"):
    out, seen = [], set()
    fams = [("MC_Free", num), ("MC_Alt", num), ("MC_Deep", num), ("MC_Staged", num), ("MC_KeyOps", 0)] + ([("MC_KeyOps2", 0)] if tier == "thorough" else [])
    for fam, n in fams:
        cfg = _cfg(w, f"gen-{fam}.cfg", {"MaxSteps": steps, "Plans": "<- " + fam}, ["Emit"], props=False)
        if n:
            g = tlc("MC_DelegCli", cfg, f"{tag}-gen-{fam}", workers=1, timeout=900, simulate=n, depth=steps + 1, seed=seed)
        else:
            # exhaustive: every behaviour of the family's plans (the history is part of the state)
            txt = open(cfg).read().replace("VIEW view\n", "")
            open(cfg, "w").write(txt)
            g = tlc("MC_DelegCli", cfg, f"{tag}-gen-{fam}", workers=4, timeout=900)
        fam_rows = []
        for r in g.replays:
            k = json.dumps([s["cmd"] for s in r["steps"]], sort_keys=True)
            if k not in seen:
                seen.add(k)
                fam_rows.append({"family": fam, "steps": r["steps"]})
        out.append(fam_rows)
    return out


def norm(v):
    v = dict(v)
    v["names"] = sorted(v["names"])
    v["keys"] = sorted(v["keys"])
    return v


def predicates(prev, s):
    """C10 / C07 evaluated on what was observed (prev: observation before the command)"""
    out = {"C10": [], "C07": []}
    cmd, o = s["cmd"], s["obs"]
    if cmd["act"] == "incorporate" and s["ok"] and cmd["role"] in ("A", "B") and prev is not None:
        r = cmd["role"]
        before, after = prev["view"][r], o["view"][r]
        # the delegating role's keys and threshold as published BEFORE the command
        auth = [k for k in o["signers"][r] if k in before["keys"]]
        # signers are computed against the keys the parent lists now; an incorporation of r does not change them
        if before["thr"] and len(auth) < before["thr"]:
            out["C10"].append(f"`update --role {r}` replaced the role with metadata carrying valid signatures of keys {o['signers'][r]}, the delegating role requires {before['thr']} of {before['keys']}")
        if after["ver"] < before["ver"]:
            out["C10"].append(f"`update --role {r}` lowered the role's version from {before['ver']} to {after['ver']}")
    c = o["client"]
    if c.get("loads"):
        for r in ("A", "B"):
            bad = [n for n in o["view"][r]["names"] if not MATCH[r](n)]
            served = [n for n in bad if n in c.get("all_targets", [])]
            if served:
                out["C07"].append(f"the client loads a repository in which role {r} lists {served}, outside its delegated paths, and serves it")
    return out


def judge(v, pid, rows, stats):
    for r in rows:
        if "error" in r:
            if "panic" in r["error"]:
                v.violation(f"harness panic while replaying a delegation workflow: {r['error']}", r)
            else:
                v.note_drift(r["error"][:300])
            continue
        kinds = [s["cmd"]["act"] for s in r["steps"]]
        stats["behaviours"] += 1
        prev = None
        for i, (s, m) in enumerate(zip(r["steps"], r["in"]["steps"])):
            stats["commands"] += 1
            key = f"{s['cmd']['act']}:{'ok' if m['ok'] else m['err']}"
            stats["kinds"][key] = stats["kinds"].get(key, 0) + 1
            o = s["obs"]
            pr = predicates(prev, s)
            # the model's Loads is the oracle for "must load" when both agree that the command succeeded: an unchecked
            # publication (remove-key, add-role of an under-signed file) excuses a refusal only where the model has one
            if pid == "C10" and s["ok"] and m["ok"] and s["cmd"]["act"] in ("owneradd", "incorporate") and not o["client"]["loads"] and m["loads"]:
                pr["C10"].append(f"`{s['cmd']['act']}` exited 0 but a client holding the root refuses the published repository: {o['client'].get('err')} {o['client'].get('detail', '')[:160]}")
            if pid == "C10" and s["ok"] and m["ok"] and s["cmd"]["act"] in ("owneradd", "incorporate") and o["client"]["loads"]:
                # what was put in = the model's record of the accepted commands (names, versions, keys, thresholds)
                seen = {"ver": o["view"]["ver"], "A": o["view"]["A"], "B": o["view"]["B"]}
                put = {"ver": m["view"]["ver"], "A": norm(m["view"]["A"]), "B": norm(m["view"]["B"])}
                if seen != put:
                    diff = {k: (put[k], seen[k]) for k in put if put[k] != seen[k]}
                    pr["C10"].append(f"after `{s['cmd']['act']}` the client sees something else than was put in (put in, seen): {json.dumps(diff)[:400]}")
            if pr[pid]:
                v.violation(f"{pr[pid][0]} (command {i + 1} of {kinds})", slim(r, i))
                break
            dis = [w for k, ws in pr.items() if k != pid for w in ws]
            if s["ok"] != m["ok"]:
                dis.append(f"model ok={m['ok']} ({m['err']}), tuftool ok={s['ok']}: {s['out'][:200]!r}")
            for k in ("A", "B"):
                if norm(m["view"][k]) != o["view"][k]:
                    dis.append(f"role {k}: model {norm(m['view'][k])} observed {o['view'][k]}")
            if m["view"]["ver"] != o["view"]["ver"]:
                dis.append(f"versions: model {m['view']['ver']} observed {o['view']['ver']}")
            if m["loads"] != o["client"]["loads"]:
                dis.append(f"client load: model {m['loads']} observed {o['client']}")
            if m["staged"] != o["staged"]:
                dis.append(f"staging directories: model {m['staged']} observed {o['staged']}")
            if o["client"].get("loads") and any(x != "ok" for x in o["client"]["reads"].values()):
                dis.append(f"listed targets do not read back: {o['client']['reads']}")
            if dis:
                v.note_drift(f"delegation workflow, command {i + 1} of {kinds} ({json.dumps(s['cmd'])}): {dis[:2]}")
                stats["drift"] += 1
                break
            if m["unchecked"] and not m["loads"]:
                stats["unloadable_by_unchecked_publication"] += 1
            prev = o
        else:
            stats["conform"] += 1
            if any(s["cmd"]["act"] == "incorporate" and s["ok"] for s in r["steps"]):
                stats["nontrivial"] += 1


def slim(r, upto):
    return {"in": {"steps": r["in"]["steps"][: upto + 1]}, "delegcli": True,
            "observed": [{"cmd": s["cmd"], "ok": s["ok"], "out": s["out"][:200], "obs": s["obs"]} for s in r["steps"][max(0, upto - 1): upto + 1]]}


def new_stats():
    return {"behaviours": 0, "commands": 0, "conform": 0, "drift": 0, "nontrivial": 0, "kinds": {}, "unloadable_by_unchecked_publication": 0}


def run_into(v, pid, tier, seed):
    tag = f"dcli-{pid.lower()}"
    w = workdir(tag)
    tuftool = vlib.build_tuftool()
    g = model_check(w, tag, 6 if tier == "quick" else 8)
    num, steps, per = (60, 7, 9) if tier == "quick" else (400, 8, 120)
    fams = generate(w, tag, seed, num, steps, tier)
    # of every family, the behaviours with the most publications (successful `update --role ...`) first: a command
    # whose output is never published shows nothing
    def weight(c):
        return -sum(1 for s in c["steps"] if s["cmd"]["act"] == "incorporate" and s["ok"])
    cases = []
    for fam in fams:
        exhaustive = fam and fam[0]["family"].startswith("MC_KeyOps")
        if exhaustive and pid == "C07":
            continue        # key operations do not touch what C07 is about (paths)
        # the key-operation families are enumerated, not sampled: all of MC_KeyOps, a third of MC_KeyOps2
        take = (fam if fam[0]["family"] == "MC_KeyOps" else fam[seed % 3::3]) if exhaustive else sorted(fam, key=weight)[:per]
        cases += take
    cp, out = os.path.join(w, "cases.ndjson"), os.path.join(w, "out.ndjson")
    write_ndjson(cp, cases)
    vh(["delegcli", "--cases", cp, "--out", out, "--tuftool", tuftool], timeout=9000)
    rows = read_ndjson(out)
    stats = new_stats()
    judge(v, pid, rows, stats)
    if stats["behaviours"] and stats["conform"] == 0 and not v.violations:
        raise vlib.ToolError(f"no delegation workflow conforms to DelegCli.tla ({stats}) -- the replay is broken")
    return {"delegcli_states": g.distinct, "delegcli_behaviours": stats["behaviours"], "delegcli_commands": stats["commands"],
            "delegcli_conforming": stats["conform"], "delegcli_drift": stats["drift"], "delegcli_nontrivial": stats["nontrivial"],
            "delegcli_commands_by_kind_and_outcome": stats["kinds"], "delegcli_actions": g.coverage,
            "delegcli_published_unloadable_after_unchecked_publication": stats["unloadable_by_unchecked_publication"]}


def replay(path, pid, seed):
    rp = json.load(open(path))["replay"]
    w = workdir(f"dcli-{pid.lower()}-replay")
    tuftool = vlib.build_tuftool()
    cp, out = os.path.join(w, "cases.ndjson"), os.path.join(w, "out.ndjson")
    write_ndjson(cp, [rp["in"]])
    vh(["delegcli", "--cases", cp, "--out", out, "--tuftool", tuftool], timeout=900)
    v = vlib.Verdict(pid, "quick", seed)
    judge(v, pid, read_ndjson(out), new_stats())
    for what, r in v.violations:
        log(f"VIOLATION property={pid} replay={path}")
        log("  " + what)
    return 1 if v.violations else 0
