"""C01 -- threshold of distinct authorized keys (Threshold.tla)."""
import os
import vlib
from vlib import tlc, make_cfg, tla_set, vh, workdir, write_ndjson, read_ndjson, Verdict, log

PID = "C01"
API_SITES = ["api-root", "api-deleg"]
LOAD_SITES = ["root-self", "root-old", "root-new", "root-samekeys", "timestamp", "snapshot", "targets", "deleg1", "deleg2"]
SIG_CLASSES = ("Verify:", "VerifyTrustedMetadata")


def model_check(w, tier):
    over = {"MaxLen": 5 if tier == "thorough" else 4, "MaxKeys": 4, "MaxThr": 4,
            "Sites": tla_set(["root-self", "deleg1"])}
    cfg = make_cfg("MC_Threshold_check.cfg", over, os.path.join(w, "check.cfg"))
    r = tlc("Threshold", cfg, "c01-check", workers=8, timeout=1200, coverage=False)
    return r


def generate(w, maxlen, maxkeys, maxthr, tag):
    over = {"MaxLen": maxlen, "MaxKeys": maxkeys, "MaxThr": maxthr, "Sites": tla_set(["any"])}
    cfg = make_cfg("MC_Threshold_gen.cfg", over, os.path.join(w, f"gen-{tag}.cfg"))
    r = tlc("Threshold", cfg, f"c01-gen-{tag}", workers=4, timeout=1200)
    if not r.ok:
        raise vlib.ToolError("generator reported a violation?\n" + (r.violation or ""))
    path = os.path.join(w, f"vectors-{tag}.ndjson")
    write_ndjson(path, r.replays)
    return r, path


def judge(v, rows):
    """The property predicate on observed data: accepted <=> SpecCount >= thr; a rejection of a
    document that meets its threshold must not be for signature reasons (everything else in the
    generated repository is valid, so any rejection there is a violation)."""
    stats = {"evaluations": 0, "accepted": 0, "rejected": 0, "skipped": 0, "repeated_key": 0}
    distinct = set()
    for r in rows:
        if r["skipped"]:
            stats["skipped"] += 1
            continue
        stats["evaluations"] += 1
        kinds = [(e["kind"], e["k"]) for e in r["list"]]
        goods = [k for (kd, k) in kinds if kd == "good"]
        nontrivial = len(goods) != len(set(goods)) or any(kd != "good" for kd, _ in kinds)
        if len(goods) != len(set(goods)):
            stats["repeated_key"] += 1
        if nontrivial:
            distinct.add((r["site"], r["alg"], r["nkeys"], r["thr"], tuple(kinds)))
        if r["accepted"]:
            stats["accepted"] += 1
        else:
            stats["rejected"] += 1
        if r["class"].startswith("panic"):
            v.violation(f"panic at site {r['site']}: {r['class']}", r)
        elif r["accepted"] and not r["expect"]:
            v.violation(f"document accepted at site {r['site']} with only "
                        f"{len(set(goods))} distinct valid authorized signers, threshold {r['thr']}", r)
        elif not r["accepted"] and r["expect"]:
            v.violation(f"document meeting its threshold rejected at site {r['site']}: {r['class']}", r)
        elif not r["accepted"] and not r["class"].startswith(SIG_CLASSES) and not r["site"].startswith("api-"):
            v.note_drift(f"site {r['site']}: rejected as expected but with class {r['class']}")
    stats["distinct_nontrivial"] = len(distinct)
    return stats


def run(tier, seed):
    w = workdir("c01")
    v = Verdict(PID, tier, seed)
    mc = model_check(w, tier)
    if not mc.ok:
        # the model itself breaks the property: report as a tool error (the model is meant to
        # describe the repaired counting); the replay below decides about the code
        raise vlib.ToolError("Threshold.tla violates its own invariant:\n" + mc.violation)
    rows = []
    if tier == "quick":
        g_api, vec_api = generate(w, 3, 3, 3, "api")
        g_load, vec_load = generate(w, 2, 2, 3, "load")
        plan = [(vec_api, API_SITES, "ed25519", 3), (vec_load, LOAD_SITES, "ed25519", 2),
                (vec_load, API_SITES, "ecdsa", 2), (vec_load, API_SITES, "rsa", 2)]
    else:
        g_api, vec_api = generate(w, 5, 4, 4, "api")
        g_load, vec_load = generate(w, 4, 3, 4, "load")
        g_alg, vec_alg = generate(w, 3, 3, 3, "alg")
        plan = [(vec_api, API_SITES, "ed25519", 5), (vec_load, LOAD_SITES, "ed25519", 4),
                (vec_alg, API_SITES + LOAD_SITES, "ecdsa", 3), (vec_alg, API_SITES, "rsa", 3),
                (vec_load, LOAD_SITES, "rsa", 2)]
    n_vectors = 0
    for i, (vec, sites, alg, maxlen) in enumerate(plan):
        out = os.path.join(w, f"results-{i}.ndjson")
        vh(["c01", "--vectors", vec, "--sites", ",".join(sites), "--alg", alg, "--maxlen", str(maxlen), "--out", out])
        rs = read_ndjson(out)
        n_vectors += len(rs)
        rows.extend(rs)
    stats = judge(v, rows)
    samples = [{"site": r["site"], "alg": r["alg"], "nkeys": r["nkeys"], "thr": r["thr"],
                "list": r["list"], "accepted": r["accepted"], "class": r["class"]}
               for r in rows[:: max(1, len(rows) // 6)][:6]]
    cov = {"states": mc.distinct, "transitions": mc.generated,
           "traces_validated_against_impl": stats["evaluations"],
           "samples": samples, "evaluations": stats["evaluations"],
           "distinct_nontrivial": stats["distinct_nontrivial"],
           "rule": "cases = reachable states of Threshold.tla (signature lists in first-use key order) x site x algorithm; "
                   "non-trivial = list contains a repeated good key or any entry that must not count; distinct by (site, alg, nkeys, thr, list)",
           "accepted": stats["accepted"], "rejected": stats["rejected"], "skipped_unbuildable": stats["skipped"],
           "cases_with_repeated_key": stats["repeated_key"],
           "exhaustive": True,
           "model": {"module": "Threshold", "invariants": ["AlgoMeetsSpec", "CountIsDistinct"],
                     "check_states": mc.distinct, "check_wall_s": round(mc.wall, 1)}}
    return v.finish("model_checking", cov, [
        "TLC; signature validity abstracted as (key, content) in the model; harness's own canonical JSON, SHA-256 and aws-lc-rs signing",
        "replayed cases are the TLC-enumerated lists realised with real keys at each verification site"])


def replay(path, seed):
    import json
    rp = json.load(open(path))["replay"]
    w = workdir("c01")
    vec = os.path.join(w, "replay-vector.ndjson")
    write_ndjson(vec, [{"nkeys": rp["nkeys"], "thr": rp["thr"], "list": rp["list"], "accept": rp["expect"]}])
    out = os.path.join(w, "replay-result.ndjson")
    vh(["c01", "--vectors", vec, "--sites", rp["site"], "--alg", rp["alg"], "--out", out])
    v = Verdict(PID, "quick", seed)
    judge(v, read_ndjson(out))
    for what, r in v.violations:
        log(f"VIOLATION property={PID} replay={path}")
        log("  " + what)
    return 1 if v.violations else 0
