"""C17 -- updating a repository preserves everything that was not deliberately changed (EditorUpdate.tla)."""
import json, os
import vlib
import lifecyclelib
from vlib import tlc, make_cfg, vh, workdir, write_ndjson, read_ndjson, Verdict, log

PID = "C17"


def judge(v, rows, stats):
    for r in rows:
        c, o = r["in"], r["obs"]
        stats["evaluations"] += 1
        if c["has"]:
            stats["nontrivial"].add(json.dumps(c, sort_keys=True) + str(r["variant"] % 2))
        if "error" in o:
            if "panic" in o["error"]:
                v.violation(f"panic during the update: {o['error']}", r)
            else:
                v.violation(f"a valid repository could not be updated: {o['error'][:300]}", r)
            continue
        lost = sorted(set(c["has"]) - set(o["kept"]))
        if lost or o["problems"]:
            v.violation(f"the update dropped or altered: {lost} {o['problems'][:3]} (repository features {c['has']}, {c['nadd']} targets added)", r)


def run(tier, seed):
    w = workdir("c17")
    v = Verdict(PID, tier, seed)
    cfg = make_cfg("MC_EditorUpdate.cfg", {"MaxAdd": 2}, os.path.join(w, "eu.cfg"))
    g = tlc("EditorUpdate", cfg, "c17", workers=2, timeout=300)
    if not g.ok:
        raise vlib.ToolError("EditorUpdate.tla violates Preserved:\n" + g.violation[-1500:])
    cases = g.replays * (1 if tier == "quick" else 4)
    cp = os.path.join(w, "cases.ndjson")
    write_ndjson(cp, cases)
    out = os.path.join(w, "out.ndjson")
    vh(["c17", "--cases", cp, "--out", out], timeout=3000)
    rows = read_ndjson(out)
    stats = {"evaluations": 0, "nontrivial": set()}
    judge(v, rows, stats)
    samples = [{"repository_features": r["in"]["has"], "targets_added": r["in"]["nadd"], "observed": r["obs"]} for r in rows[len(rows) // 2: len(rows) // 2 + 3]]
    cov = {"states": g.distinct, "transitions": g.generated, "traces_validated_against_impl": stats["evaluations"],
           "samples": samples, "evaluations": stats["evaluations"], "distinct_nontrivial": len(stats["nontrivial"]),
           "rule": "cases = every state of EditorUpdate.tla: every subset of {unknown top-level member in targets / snapshot / timestamp, custom data on a target, a delegated role with its own signed file} x 0..2 added targets, alternating consistent_snapshot; the input repository is built by the harness's own writers, loaded, passed through RepositoryEditor::from_repo, new versions/expirations, sign, write; the written JSON is compared member by member with the input, the delegated role's file byte-for-byte as JSON and its signature re-verified; non-trivial = at least one feature present",
           "exhaustive": True}
    cov.update(lifecyclelib.run_into(v, PID, tier, seed))
    return v.finish("model_checking", cov, ["TLC enumerates repository shapes and states what must be carried over; the comparison of written and input documents is done on the real files",
                                            "the tuftool update command is exercised by Lifecycle.tla behaviours (create, foreign re-sign, update, transfer, refresh, clone, download) run through the tuftool binary"])


def replay(path, seed):
    if json.load(open(path))["replay"].get("lifecycle"):
        return lifecyclelib.replay(path, PID, seed)
    rp = json.load(open(path))["replay"]
    w = workdir("c17")
    cp = os.path.join(w, "replay.ndjson")
    write_ndjson(cp, [rp["in"]] * (rp["variant"] % 2 + 1))
    out = os.path.join(w, "replay-out.ndjson")
    vh(["c17", "--cases", cp, "--out", out])
    v = Verdict(PID, "quick", seed)
    judge(v, read_ndjson(out)[-1:], {"evaluations": 0, "nontrivial": set()})
    for what, r in v.violations:
        log(f"VIOLATION property={PID} replay={path}")
        log("  " + what)
    return 1 if v.violations else 0
