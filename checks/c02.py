"""C02 -- root rotation follows an unbroken, doubly-signed, forward-only chain (MC_RootChain)."""
import json
import vlib, clientlib
from vlib import Verdict, log

PID = "C02"
FIELDS = ["walk", "trusted", "bounded"]
UNIT = 8192
TV = {"Unit": UNIT}


def nontrivial(b):
    """the server offered at least one root document that is not a valid successor"""
    return any(e["ev"] == "root" and e["s"].get("k") == "root" and e.get("o") not in ("adopt",) for e in b["hist"]) \
        or any(e["ev"] in ("ts", "sn", "tg") and str(e.get("o", "")).startswith("Verify") for e in b["hist"])


def run(tier, seed):
    v = Verdict(PID, tier, seed)
    mc = clientlib.model_check("MC_RootChain", "MC_RootChain_check.cfg",
                               {"MaxRootV": 4 if tier == "thorough" else 3}, "c02", workers=10)
    if not mc.ok:
        raise vlib.ToolError("MC_RootChain violates an invariant:\n" + mc.violation[-3000:])
    behaviours = []
    if tier == "quick":
        plans = [({"CfgIds": '{"c1", "c2", "c3"}', "SigSets": "<- FewSigSets", "MaxRootV": 2, "Cons": "FALSE"}, "a"),
                 ({"CfgIds": '{"c1", "c4"}', "SigSets": "<- AllSigSets", "MaxRootV": 2, "Cons": "TRUE"}, "b"),
                 # two hops: the root keys change at the first one, the second is judged under the new ones
                 ({"CfgIds": '{"c1", "c2"}', "SigSets": "<- FewSigSets", "MaxRootV": 3, "Cons": "FALSE"}, "c"),
                 # a hop that keeps the root keys and raises the threshold (c5 -> c3)
                 ({"CfgIds": '{"c5", "c3"}', "SigSets": "<- FewSigSets", "MaxRootV": 2, "Cons": "FALSE"}, "d")]
    else:
        plans = [({"CfgIds": '{"c1", "c2", "c3"}', "SigSets": "<- FewSigSets", "MaxRootV": 3, "Cons": "FALSE"}, "a"),
                 ({"CfgIds": '{"c1", "c2", "c3", "c4"}', "SigSets": "<- AllSigSets", "MaxRootV": 2, "Cons": "TRUE"}, "b"),
                 ({"CfgIds": '{"c5", "c3", "c1"}', "SigSets": "<- FewSigSets", "MaxRootV": 3, "Cons": "FALSE"}, "d")]
    for over, tag in plans:
        g, bs = clientlib.generate("MC_RootChain", "MC_RootChain_check.cfg", over, f"c02-gen-{tag}", timeout=1200)
        for i, b in enumerate(bs):
            b["id"] = f"{tag}-{i}"
        behaviours += bs
    if tier == "thorough":
        g, bs = clientlib.generate("MC_RootChain", "MC_RootChain_check.cfg",
                                   {"MaxRootV": 8, "MaxRootUpdates": 8}, "c02-sim", simulate=5000, depth=40, seed=seed)
        for i, b in enumerate(bs):
            b["id"] = f"sim-{i}"
        behaviours += bs
    by_id = {b["id"]: b for b in behaviours}
    traces = clientlib.replay(behaviours, "c02-replay", unit=UNIT)
    # behaviours generated with another root-update limit are validated with that limit
    groups = {}
    for tid, evs in traces.items():
        groups.setdefault(by_id[tid]["limits"]["updates"], {})[tid] = evs
    st = {"traces": 0, "explained": 0, "unexplained": 0, "cycles": 0}
    nev = 0
    for upd, trs in groups.items():
        strict, obs, mism, n, _ = clientlib.validate(trs, f"c02-u{upd}", dict(TV, MaxRootUpdates=upd))
        s = clientlib.judge(v, PID, trs, by_id, strict, obs, mism, FIELDS)
        for k in st:
            st[k] += s[k]
        nev += n
    nt = sum(1 for b in behaviours if nontrivial(b))
    sample = next(b for b in behaviours if nontrivial(b))
    cov = {"states": mc.distinct, "transitions": mc.generated, "traces_validated_against_impl": st["traces"],
           "samples": [{"id": sample["id"], "hist": [{k: (e[k] if k != "s" else {x: e["s"].get(x) for x in ("k", "v", "signers", "rk", "rthr")}) for k in e if k in ("ev", "req", "s", "o")} for e in sample["hist"]]}],
           "evaluations": st["cycles"], "distinct_nontrivial": nt,
           "rule": "behaviours = every path of MC_RootChain (shipped root x per-request answer among all key configurations x signer sets x claimed versions n-1/n/n+1 x non-documents, then top-level metadata signed by online keys of any configuration); non-trivial = some offered root is not a valid successor or some later role is signed by keys of another epoch",
           "trace_events": nev, "explained_by_model": st["explained"], "not_explained": st["unexplained"],
           "exhaustive": True}
    cov.update(clientlib.fixture_traces(v, PID, FIELDS, "c02-fx"))
    cov.update(clientlib.suite_traces(v, PID, FIELDS, "c02-suite"))
    return v.finish("model_checking", cov, [
        "TLC; signature validity abstracted as signer sets; key 13 is an RSA key and 12/14 ECDSA keys in the harness so that hops change algorithm",
        "the chain is explored up to MaxRootV published versions (3 quick / 4 thorough in the check configuration)"])


def replay(path, seed):
    rp = json.load(open(path))["replay"]
    b = rp["behaviour"]
    v = Verdict(PID, "quick", seed)
    traces = clientlib.replay([b], "c02-replay1", shards=1, unit=UNIT)
    strict, obs, mism, nev, _ = clientlib.validate(traces, "c02-r1", dict(TV, MaxRootUpdates=b["limits"]["updates"]))
    clientlib.judge(v, PID, traces, {b["id"]: b}, strict, obs, mism, FIELDS)
    for what, r in v.violations:
        log(f"VIOLATION property={PID} replay={path}")
        log("  " + what)
    return 1 if v.violations else 0
