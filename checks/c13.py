"""C13 -- a key is only trusted under the identifier that is the digest of its content (KeyTable.tla)."""
import json, os
import vlib
from vlib import tlc, make_cfg, vh, workdir, write_ndjson, read_ndjson, Verdict, log

PID = "C13"


def judge(v, rows, stats):
    for r in rows:
        stats["evaluations"] += 1
        if "imported" in r:
            stats["nontrivial"].add("imported:" + r["imported"])
            if not r["ok"]:
                v.violation(f"identifier of imported key {r['imported']} is not stable across serialise/parse: {r.get('ids') or r.get('err')}", r)
            continue
        c = r["in"]
        if c["mut"] != "none":
            stats["nontrivial"].add((c["n"], c["site"], c["mut"], c["pos"], r["rot"]))
        if r["parsed"] and not c["ok"]:
            v.violation(f"{c['site']} key table with mutation '{c['mut']}' at entry {c['pos']} of {c['n']} ({r['flavors']}) is accepted", r)
        elif not r["parsed"] and c["ok"]:
            v.violation(f"{c['site']} key table with harmless mutation '{c['mut']}' at entry {c['pos']} of {c['n']} ({r['flavors']}) is refused: {r['err']}", r)
        elif r["parsed"] and not r["stable"]:
            v.violation(f"key identifiers not stable / not the digest of the key content: {r['detail']} ({r['flavors']})", r)


def run(tier, seed):
    w = workdir("c13")
    v = Verdict(PID, tier, seed)
    cfg = make_cfg("MC_KeyTable.cfg", {"MaxKeys": 4 if tier == "quick" else 6}, os.path.join(w, "kt.cfg"))
    g = tlc("KeyTable", cfg, "c13", workers=2, timeout=300)
    if not g.ok:
        raise vlib.ToolError("KeyTable.tla violates ParseMeetsSpec:\n" + g.violation[-2000:])
    cp = os.path.join(w, "cases.ndjson")
    write_ndjson(cp, g.replays)
    out = os.path.join(w, "out.ndjson")
    vh(["c13", "--cases", cp, "--rotations", "5" if tier == "quick" else "10", "--out", out], timeout=3000)
    rows = read_ndjson(out)
    stats = {"evaluations": 0, "nontrivial": set()}
    judge(v, rows, stats)
    krows = [r for r in rows if "in" in r]
    samples = [{"case": r["in"], "key_types": r["flavors"], "parsed": r["parsed"], "error": r["err"][:120]} for r in krows[len(krows) // 2: len(krows) // 2 + 3]]
    cov = {"states": g.distinct, "transitions": g.generated, "traces_validated_against_impl": len(rows),
           "samples": samples, "evaluations": stats["evaluations"], "distinct_nontrivial": len(stats["nontrivial"]),
           "rule": "cases = every state of KeyTable.tla: tables of 1..4 (thorough: 1..6) keys x site {root keys, delegations keys} x one mutation {none, bit flip, swap with another entry, truncation, upper-case respelling, duplicate entry, duplicate in other hex case, unknown members with / without recomputed identifier} x position; each realised 5 (thorough: 10) times with the key types rotated (Ed25519 hex, RSA PEM, ECDSA PEM, ECDSA hex, old ECDSA key type); accepted tables are re-serialised and re-parsed twice; keys imported through tough::sign::parse_keypair are checked for stable identifiers; non-trivial = a mutation is present",
           "exhaustive": True}
    return v.finish("model_checking", cov, ["TLC enumerates table shapes and states which must parse (the digest of a key is modelled as injective); the oracle digest is the harness's own SHA-256 over its own canonical JSON"])


def replay(path, seed):
    rp = json.load(open(path))["replay"]
    if "in" not in rp:
        return 0
    w = workdir("c13")
    cp = os.path.join(w, "replay.ndjson")
    write_ndjson(cp, [rp["in"]])
    out = os.path.join(w, "replay-out.ndjson")
    vh(["c13", "--cases", cp, "--rotations", "5", "--out", out])
    v = Verdict(PID, "quick", seed)
    judge(v, [r for r in read_ndjson(out) if r.get("rot") == rp["rot"]], {"evaluations": 0, "nontrivial": set()})
    for what, r in v.violations:
        log(f"VIOLATION property={PID} replay={path}")
        log("  " + what)
    return 1 if v.violations else 0
