"""C12 -- signatures bind all content the client uses; roles cannot be swapped (SignedDoc.tla)."""
import json, os
import vlib
from vlib import tlc, make_cfg, vh, workdir, write_ndjson, read_ndjson, Verdict, log

PID = "C12"


def run(tier, seed):
    w = workdir("c12")
    v = Verdict(PID, tier, seed)
    cfg = make_cfg("MC_SignedDoc.cfg", {}, os.path.join(w, "sd.cfg"))
    g = tlc("SignedDoc", cfg, "c12", workers=2, timeout=300)
    if not g.ok:
        raise vlib.ToolError("SignedDoc.tla violates its invariants:\n" + g.violation[-2000:])
    table = {(c["cls"], c["mut"]): c for c in g.replays}
    dropped = {"delegations", "delegations.roles[i]"}
    out = os.path.join(w, "out.ndjson")
    vh(["c12", "--out", out], timeout=3000)
    rows = read_ndjson(out)
    known = {f["id"] for f in vlib.known_findings().get("findings", [])}
    stats = {"evaluations": 0, "nontrivial": set()}
    for r in rows:
        o = r["obs"]
        stats["evaluations"] += 1
        kind, cls = r["kind"], r["class"]
        stats["nontrivial"].add((r["role"], r["path"], kind))
        bad = None
        if str(o["cls"]).startswith("panic"):
            bad = f"panic: {o['cls']}"
        elif kind in ("change", "delete", "insert", "type-tag", "role-swap"):
            # if the client accepts, what it uses must be exactly what was signed
            if o["accepted"] and not o["used_equals_signed_original"]:
                bad = (f"{r['role']}: mutation '{kind}' at {r['path']} (original signatures kept) is accepted and the client "
                       f"uses content that was never signed")
            elif o["accepted"] and kind in ("change", "delete", "role-swap"):
                bad = f"{r['role']}: mutation '{kind}' at {r['path']} of the signed portion is accepted"
        elif kind in ("reorder", "reformat", "respell", "extra-signature"):
            if not o["accepted"]:
                bad = f"{r['role']}: harmless transformation '{kind}' makes the document unacceptable: {o['cls']}"
        elif kind == "foreign":
            if not o["accepted"]:
                if cls in dropped and "F11-unknown-member-in-delegations" in known:
                    v.known("F11-unknown-member-in-delegations", f"a correctly signed targets document with an unknown member inside {cls} is rejected ({o['cls']})")
                else:
                    bad = f"{r['role']}: correctly signed document with unknown members at {cls} is rejected: {o['cls']}"
            elif not o["used_equals_signed_original"]:
                bad = f"{r['role']}: document with foreign members accepted but the content used differs from the signed content"
        if bad:
            v.violation(bad, r)
            continue
        # conformance with the model's table
        mcls = cls if (cls, kind) in table else ("signed" if cls in ("map", "all-kept-classes") else cls)
        exp = table.get((mcls, kind))
        if exp is not None and exp["accept"] != o["accepted"] and not (kind == "foreign" and cls in dropped):
            v.note_drift(f"{r['role']} {kind} at {r['path']} ({cls}): model accept={exp['accept']}, code accept={o['accepted']} ({o['cls']})")
    samples = [{"role": r["role"], "position": r["path"], "class": r["class"], "mutation": r["kind"], "observed": {k: r["obs"].get(k) for k in ("accepted", "cls", "used_equals_signed_original")}}
               for r in rows[:: max(1, len(rows) // 6)][:6]]
    cov = {"states": g.distinct, "transitions": g.generated, "traces_validated_against_impl": stats["evaluations"],
           "samples": samples, "evaluations": stats["evaluations"], "distinct_nontrivial": len(stats["nontrivial"]),
           "rule": "documents = root (as shipped and as 2.root.json), timestamp, snapshot, targets (with custom data and delegations), delegated targets, each carrying unknown members at every object level that has a catch-all map; mutants = at every position of every signed portion: change of each scalar, deletion of each member / last array element, insertion of an unknown member into each struct-like object, plus re-ordering, re-formatting, an extra signature entry, a rewritten role tag, snapshot<->timestamp swapped between roles sharing a key (through load(), also with a timestamp that lists every file a snapshot lists so that nothing later in the load can mask an accepted swap, and at Root::verify_role for every ordered pair of online role types under one shared key), and foreign members at the two levels without a catch-all map; each is served with the original signatures through load(); non-trivial = every mutant (distinct by role, position, kind)",
           "exhaustive": True}
    return v.finish("model_checking", cov, ["TLC checks the abstract argument (verification over the re-serialised parse) per position class and mutation kind and supplies the expected verdicts; which fields of the Rust structs survive re-serialisation is decided by the replay at every concrete position, not by TLC",
                                            "F11 (no catch-all map on Delegations / DelegatedRole) is a recorded finding"])


def replay(path, seed):
    log("C12 replays re-run the whole (deterministic, 20 s) mutation sweep")
    return run("quick", seed)
