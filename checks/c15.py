"""C15 -- stored trust state survives crashes and I/O failures (TufStore.tla + LD_PRELOAD shim)."""
import json, os
import vlib
from vlib import tlc, make_cfg, vh, workdir, write_ndjson, read_ndjson, Verdict, log

PID = "C15"
SHIM = os.path.join(vlib.VERIF, "shim", "fsfault.so")
OLD, NEW, LOWER = 2, 3, 1


def ensure_shim():
    src = os.path.join(vlib.VERIF, "shim", "fsfault.c")
    if not os.path.exists(SHIM) or os.path.getmtime(SHIM) < os.path.getmtime(src):
        vlib.sh(["gcc", "-O2", "-shared", "-fPIC", "-o", SHIM, src, "-ldl"])


def model(w, atomic, invs, tag):
    cfg = make_cfg("MC_TufStore.cfg", {"Atomic": atomic, "Old": OLD, "New": NEW, "Lower": LOWER},
                   os.path.join(w, f"{tag}.cfg"), invariants=invs)
    return tlc("TufStore", cfg, f"c15-{tag}", workers=2, timeout=300)


def probe_ops(w):
    """Run the interrupted cycle without a fault and read the shim's call log: which create
    discipline does the working tree implement, and does the model's call sequence match it?"""
    cases = [{"n": 0, "mode": "", "follow": {"ts": NEW, "sn": NEW, "tg": NEW}, "old": OLD, "new": NEW, "want_log": True}]
    cp = os.path.join(w, "probe.ndjson")
    write_ndjson(cp, cases)
    out = os.path.join(w, "probe-out.ndjson")
    vh(["c15", "--cases", cp, "--shim", SHIM, "--out", out])
    r = read_ndjson(out)[0]
    return r


def concurrent(w, v, tier, seed):
    """Beyond C15 (DESIGN.md 4.5): two cycles at the same time on one datastore directory.
    TufStoreConc.tla is model-checked, every complete schedule TLC prints is (quick: a sample)
    executed with two real processes stepped through the shim's gate, and results, final directory
    and the follow-up cycles are compared with the model.  Nothing here can raise a VIOLATION:
    concurrent cycles are outside the property; a disagreement with the model is DRIFT."""
    import random
    cfgc = make_cfg("MC_TufStoreConc.cfg", {}, os.path.join(w, "conc-check.cfg"))
    mc = tlc("MC_TufStoreConc", cfgc, "c15-conc-check", workers=2, timeout=300)
    if not mc.ok:
        raise vlib.ToolError("TufStoreConc.tla: an invariant that should hold under every schedule fails:\n" + (mc.violation or "")[-2000:])
    gen = tlc("MC_TufStoreConc", make_cfg("MC_TufStoreConc.cfg", {}, os.path.join(w, "conc-gen.cfg"), invariants=["Emit"]),
              "c15-conc-gen", workers=2, timeout=300)
    beh = gen.replays
    lost = [b for b in beh if b["lost"]]
    rnd = random.Random(seed)
    if tier == "quick":
        pick = rnd.sample(lost, min(25, len(lost))) + rnd.sample([b for b in beh if not b["lost"]], min(25, len(beh) - len(lost)))
    else:
        pick = beh
    cases = [{"old": b["old"], "a": b["a"], "b": b["b"], "sched": b["sched"], "follow": sorted({f["v"] for f in b["follow"]}), "m": b} for b in pick]
    cp = os.path.join(w, "conc-cases.ndjson")
    write_ndjson(cp, cases)
    out = os.path.join(w, "conc-results.ndjson")
    vh(["c15conc", "--cases", cp, "--shim", SHIM, "--out", out], timeout=3000)
    rows = read_ndjson(out)
    agree = skipped = lost_seen = below = 0
    for r in rows:
        m = r["in"]["m"]
        if r["tool"]:
            skipped += 1
            continue
        obs = {"A": r["A"]["res"], "B": r["B"]["res"]}
        fl = {f["v"]: f["r"] for f in r["follow"]}
        exp_fl = {f["v"]: f["r"] for f in m["follow"]}
        files = {k: r["files"][k] for k in ("ts", "sn", "tg")}
        if obs == m["res"] and files == m["files"] and fl == exp_fl:
            agree += 1
        else:
            v.note_drift(f"concurrent cycles, schedule {''.join(m['sched'])} (A served {m['a']}, B served {m['b']}): "
                         f"model results/files/follow {m['res']}/{m['files']}/{exp_fl}, code {obs}/{files}/{fl}")
        okv = [r[p]["ts"] for p in ("A", "B") if r[p]["res"] == "ok"]
        if okv and min(files.values()) < max(okv):
            lost_seen += 1
        # the part of C15/C03 that survives concurrency, on what the code did
        if min(files.values()) < r["in"]["old"] or any(f["r"] == "ok" and f["v"] < r["in"]["old"] for f in r["follow"]):
            below += 1
    ap = vlib.apalache_inductive("ConcCore", "c15-conc-core")
    return {"unbounded_versions": {"module": "ConcCore.tla", "apalache_inductive_invariant": "IndInv (TypeOK, NeverBelowEarlier, NeverTorn, SuccessNotOlder, PassedMeansNotOlder, OkAtEnd) for every natural-number Old and pair of served versions", "apalache_seconds": ap},
            "model_states": mc.distinct, "schedules_in_model": len(beh), "schedules_with_lost_update_in_model": len(lost),
            "schedules_run_with_two_processes": len(rows) - skipped, "agree_with_model": agree, "skipped_gate_timeouts": skipped,
            "runs_where_a_successful_cycles_version_was_overwritten_by_a_lower_one": lost_seen,
            "runs_ending_below_what_was_trusted_before_both": below,
            "invariants_checked": ["NeverTorn", "NeverBelowEarlier", "FollowNeverBelowEarlier", "SuccessNotOlder", "RefusedMeansOlder", "LoweredOnlyIfOverlapping"],
            "note": "observation outside the property (cycles overlap in time): see DESIGN.md section 9"}, below, rows


def run(tier, seed):
    ensure_shim()
    w = workdir("c15")
    v = Verdict(PID, tier, seed)
    probe = probe_ops(w)
    oplog = probe["oplog"]
    renames = sum(1 for o in oplog if o["op"] == "rename")
    atomic = "TRUE" if renames > 0 or any(o["f"] == "tmp" for o in oplog) else "FALSE"
    # the model of what the working tree does
    g = model(w, atomic, ["EmitOps"], "ops")
    ops = g.replays[0]["ops"] if g.replays else []
    # tempfile::persist renames through a raw system call the shim cannot see: compare modulo renames
    strip = lambda l: [o for o in l if o["op"] != "rename"]
    seq_ok = (oplog == ops) or (strip(oplog) == strip(ops) and atomic == "FALSE") or (strip(oplog) == strip(ops))
    visible_rename = renames > 0
    if not seq_ok:
        v.note_drift(f"the file-system calls of an unfaulted cycle differ from TufStore.tla CycleOps: code {json.dumps(oplog)[:600]} model {json.dumps(ops)[:600]}")
    # design-level verdict for the discipline the code uses
    mc = model(w, atomic, ["RollbackSurvives", "NoLockout"], "check")
    model_violation = not mc.ok
    # behaviours: every crash point / failing call x follow-up
    gen = model(w, atomic, ["Emit"], "gen")
    beh = gen.replays
    ncalls = probe["calls"]
    # map model positions to shim call numbers: positions are counted in visible calls
    vis_index = []   # vis_index[k] = number of visible calls among the first k model ops
    cnt = 0
    vis_index.append(0)
    for o in ops:
        if not (o["op"] == "rename" and not visible_rename):
            cnt += 1
        vis_index.append(cnt)
    cases = []
    for b in beh:
        f = b["fault"]
        if f["kind"] == "none":
            cases.append({"n": 0, "mode": "", "b": b})
        elif f["kind"] == "kill":
            at = f["at"]
            k = vis_index[at]
            # killing after an invisible rename == killing before the next visible call
            if at > 0 and ops[at - 1]["op"] == "rename" and not visible_rename:
                cases.append({"n": k + 1, "mode": "kill-before", "b": b})
            elif at == 0:
                cases.append({"n": 1, "mode": "kill-before", "b": b})
            else:
                cases.append({"n": k, "mode": "kill-after", "b": b})
                if tier == "thorough" and k + 1 <= ncalls and not (at < len(ops) and ops[at]["op"] == "rename" and not visible_rename):
                    cases.append({"n": k + 1, "mode": "kill-before", "b": b})
        else:
            at = f["at"]
            if ops[at - 1]["op"] == "rename" and not visible_rename:
                continue   # cannot be injected through the shim
            k = vis_index[at]
            for m in (("enospc", "eio") if tier == "thorough" else ("enospc",)):
                cases.append({"n": k, "mode": m, "b": b})
    for c in cases:
        c["follow"] = c["b"]["follow"]
        c["old"], c["new"] = OLD, NEW
    cp = os.path.join(w, "cases.ndjson")
    write_ndjson(cp, cases)
    out = os.path.join(w, "results.ndjson")
    vh(["c15", "--cases", cp, "--shim", SHIM, "--out", out], timeout=3000)
    rows = read_ndjson(out)
    known = {f["id"] for f in vlib.known_findings().get("findings", [])}
    nontrivial = set()
    mism = 0
    for r in rows:
        c = r["in"]
        b = c["b"]
        res = r["result"]
        follow = c["follow"]
        if c["mode"]:
            nontrivial.add((c["n"], c["mode"], follow["ts"], follow["sn"], follow["tg"]))
        # property predicate on what the code did
        bad = None
        if res["res"].startswith("panic"):
            bad = f"panic in the follow-up cycle: {res['res']}"
        elif res["res"] == "ok" and (res["ts"] < OLD or res["sn"] < OLD or res["tg"] < OLD):
            bad = (f"after {c['mode'] or 'no fault'} at datastore call {c['n']} a later cycle succeeded with "
                   f"timestamp/snapshot/targets versions {res['ts']}/{res['sn']}/{res['tg']} although {OLD} had been trusted before "
                   f"(datastore after the interruption: {r['files']})")
        elif follow == {"ts": NEW, "sn": NEW, "tg": NEW} and res["res"] != "ok":
            bad = (f"after {c['mode'] or 'no fault'} at datastore call {c['n']} the current repository is refused: {res['res']} "
                   f"(datastore: {r['files']})")
        if bad:
            v.violation(bad, {"case": {k: c[k] for k in ("n", "mode", "follow", "old", "new")}, "observed": {k: r[k] for k in ("child", "files", "result")}})
        # conformance with the model (DRIFT only)
        exp = b["result"]
        if (res["res"], res["ts"], res["sn"], res["tg"]) != (exp["res"], exp["ts"], exp["sn"], exp["tg"]) or \
           any(r["files"][k] != b["files"][k] for k in ("ts", "sn", "tg")):
            mism += 1
            if not bad:
                v.note_drift(f"fault {c['mode']}@{c['n']} follow {follow}: model files/result {b['files']}/{exp}, code {r['files']}/{res}")
    if model_violation and not v.violations:
        raise vlib.ToolError("TufStore.tla (with the create discipline observed in the code) violates C15 but no replay reproduces it:\n" + (mc.violation or "")[-2000:])
    conc, below, crows = concurrent(w, v, tier, seed)
    if below:
        v.note_drift(f"concurrent cycles: {below} runs ended below the version an earlier, completed cycle had trusted (TufStoreConc.tla NeverBelowEarlier says this cannot happen)")
    samples = [{"fault": r["in"]["mode"], "at_call": r["in"]["n"], "follow": r["in"]["follow"], "child": r["child"]["res"],
                "datastore": r["files"], "result": r["result"]} for r in rows[:: max(1, len(rows) // 5)][:5]]
    cov = {"evaluations": len(rows), "distinct_nontrivial": len(nontrivial),
           "rule": "cases = every reachable (crash position | failing call) x follow-up repository of TufStore.tla, mapped onto the numbered file-system calls the real cycle makes on the datastore directory (shim log); non-trivial = a fault was injected; distinct by (call number, fault kind, follow-up versions)",
           "samples": samples, "states": gen.distinct, "transitions": gen.generated,
           "traces_validated_against_impl": len(rows),
           "datastore_calls_per_cycle": ncalls, "create_discipline": "tmp+rename" if atomic == "TRUE" else "truncate+write",
           "call_sequence_matches_model": bool(seq_ok), "rename_visible_to_shim": visible_rename,
           "model_disagreements": mism, "exhaustive": True, "concurrent_cycles": conc}
    return v.finish("fault_enumeration", cov, [
        "TLC enumerates crash positions and failing calls of TufStore.tla; the LD_PRELOAD shim sees calls made through libc (open/write/close/unlink/rename); a rename issued as a raw system call (tempfile::persist) is bracketed by the visible calls around it",
        "process death (SIGKILL) and failing calls (ENOSPC/EIO) are injected; power loss / reordering of writes by the file system is out of scope"])


def replay(path, seed):
    ensure_shim()
    rp = json.load(open(path))["replay"]
    w = workdir("c15")
    cp = os.path.join(w, "replay-case.ndjson")
    write_ndjson(cp, [rp["case"]])
    out = os.path.join(w, "replay-out.ndjson")
    vh(["c15", "--cases", cp, "--shim", SHIM, "--out", out])
    r = read_ndjson(out)[0]
    res = r["result"]
    f = rp["case"]["follow"]
    bad = (res["res"] == "ok" and min(res["ts"], res["sn"], res["tg"]) < OLD) or (f == {"ts": NEW, "sn": NEW, "tg": NEW} and res["res"] != "ok")
    if bad:
        log(f"VIOLATION property={PID} replay={path}")
        log(f"  {r['files']} -> {res}")
        return 1
    return 0
