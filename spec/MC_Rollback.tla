----------------------------- MODULE MC_Rollback -----------------------------
(***************************************************************************)
(* Configuration of TufClient for C03 / C14: histories of update cycles    *)
(* over one datastore against a server that replays genuinely signed files *)
(* of any version and any key epoch, and may withhold newer roots.         *)
(***************************************************************************)
EXTENDS TufClient

CONSTANTS V,          \* versions 1..V per role
          ChainId,    \* which root chain (key history) is published
          ShipMode,   \* "newest": applications ship the newest root they have verified
                      \* "any": any root of the chain may be shipped in any cycle
          Cons        \* consistent_snapshot of every root

\* key numbers: 9 root key; 1,2 timestamp; 3,5 snapshot; 4,6 targets
R(v, ts, tst, sn, snt, tg, tgt) ==
  [k |-> "root", v |-> v, exp |-> 9, len |-> 1, b |-> 1, signers |-> {9}, cons |-> Cons,
   rk |-> {9}, rthr |-> 1, ts |-> ts, tsthr |-> tst, sn |-> sn, snthr |-> snt, tg |-> tg, tgthr |-> tgt]

Chains == [
  tsRotateBack |-> << R(1, <<1>>, 1, <<3>>, 1, <<4>>, 1), R(2, <<2>>, 1, <<3>>, 1, <<4>>, 1), R(3, <<1>>, 1, <<3>>, 1, <<4>>, 1) >>,
  snRotate     |-> << R(1, <<1>>, 1, <<3>>, 1, <<4>>, 1), R(2, <<1>>, 1, <<5>>, 1, <<4>>, 1), R(3, <<1>>, 1, <<5>>, 1, <<4>>, 1) >>,
  tgRotate     |-> << R(1, <<1>>, 1, <<3>>, 1, <<4>>, 1), R(2, <<1>>, 1, <<3>>, 1, <<6>>, 1), R(3, <<1>>, 1, <<3>>, 1, <<4>>, 1) >>,
  tsThreshold  |-> << R(1, <<1, 2>>, 1, <<3>>, 1, <<4>>, 1), R(2, <<1, 2>>, 2, <<3>>, 1, <<4>>, 1) >>,
  tsOverlap    |-> << R(1, <<1>>, 1, <<3>>, 1, <<4>>, 1), R(2, <<1, 2>>, 1, <<3>>, 1, <<4>>, 1), R(3, <<2>>, 1, <<3>>, 1, <<4>>, 1) >>,
  tsReorder    |-> << R(1, <<1, 2>>, 1, <<3>>, 1, <<4>>, 1), R(2, <<2, 1>>, 1, <<3>>, 1, <<4>>, 1) >>,
  \* the timestamp role gains the key of the snapshot role: the key lists change, the union of online keys does not
  tsTakesSnKey |-> << R(1, <<1>>, 1, <<3>>, 1, <<4>>, 1), R(2, <<1, 3>>, 1, <<3>>, 1, <<4>>, 1) >>,
  noChange     |-> << R(1, <<1>>, 1, <<3>>, 1, <<4>>, 1), R(2, <<1>>, 1, <<3>>, 1, <<4>>, 1) >>
]
TheChain == Chains[ChainId]
Epochs == DOMAIN TheChain

MC_Shipped == {TheChain[e] : e \in Epochs}
MC_ShipRule(sh, mx) == IF ShipMode = "newest" THEN sh.v >= mx ELSE TRUE

\* the server shows the genuine next root or withholds it
MC_CandRoot(n, tr) == (IF n \in Epochs THEN {TheChain[n]} ELSE {}) \cup {[k |-> "absent"]}

Pin(v) == [v |-> v, h |-> NoDoc, len |-> 0]
\* genuinely signed files of every version, signed with the keys of any epoch
MC_CandTs(r) == {[k |-> "ts", v |-> v, exp |-> 9, len |-> 1, b |-> 1,
                  signers |-> Range(TheChain[e].ts), pin |-> Pin(sv)] :
                    v \in 1..V, sv \in 1..V, e \in Epochs}
MC_CandSn(r, ts) == {[k |-> "sn", v |-> ts.pin.v, exp |-> 9, len |-> 1, b |-> 1,
                      signers |-> Range(TheChain[e].sn), pin |-> Pin(tv)] :
                        tv \in 0..V, e \in Epochs}
MC_CandTg(r, sn) == {[k |-> "tg", v |-> sn.pin.v, exp |-> 9, len |-> 1, b |-> 1,
                      signers |-> Range(TheChain[e].tg)] : e \in Epochs}

MC_Limit == [root |-> 2, ts |-> 2, sn |-> 2, tg |-> 2]

\* F2 (d): the ordered comparison of step 1.9 fires although key set and threshold are equal
OrderOnly(a, b) == /\ (a.ts # b.ts \/ a.sn # b.sn)
                   /\ KeySet(a, "ts") = KeySet(b, "ts") /\ KeySet(a, "sn") = KeySet(b, "sn")
ChainHasOrderOnly == \E a, b \in MC_Shipped : OrderOnly(a, b)   \* only tsReorder has it

\* C03 on clean histories (newest root shipped, no order-only re-listing) and modulo the
\* recorded finding classes otherwise
RollbackInv == IF ShipMode = "newest" /\ ~ChainHasOrderOnly THEN RollbackSafe
               ELSE IF ShipMode = "newest" THEN RollbackSafeModOrder
               ELSE IF ~ChainHasOrderOnly THEN RollbackSafeModStale
               ELSE RollbackSafeModKF

=============================================================================
