------------------------------- MODULE Editor -------------------------------
(***************************************************************************)
(* The repository editor (tough/src/editor: RepositoryEditor,              *)
(* TargetsEditor, SignedRole) followed by a client load of what it wrote   *)
(* (properties C10, C17, C19).                                             *)
(*                                                                         *)
(* State: the top-level targets role and up to two delegated roles below   *)
(* it (d1 delegated by targets, d2 by targets or by d1), each with the     *)
(* names it lists, its version, the keys and threshold its parent          *)
(* authorizes, the names its parent's path set matches, and the set of     *)
(* keys whose signature over its CURRENT content is valid.  `editing` is   *)
(* the role the editor's TargetsEditor currently holds.                    *)
(*                                                                         *)
(* Actions are the public operations; each is enabled exactly when the     *)
(* real call returns Ok (a program is a sequence of accepted operations).  *)
(* ThresholdChecked = TRUE: delegate_role refuses a threshold above the    *)
(* number of keys.  ProbeRefusals = TRUE (generation only) adds, as last    *)
(* operations of a program, signing attempts with some but fewer than the  *)
(* threshold of the edited role's keys: the editor must refuse them, and   *)
(* if it does not, what it writes must still load (it will not).           *)
(***************************************************************************)
EXTENDS Naturals, Sequences, FiniteSets, TLC, Json

CONSTANTS Names, DKeys, MaxOps, ThresholdChecked, ProbeRefusals, MinOps, Deep

Top == "targets"
DRoles == {"d1", "d2"}
TopKey == 103        \* the key root authorizes for targets (snapshot 102, timestamp 101)

NoRole == [on |-> FALSE]
VARIABLES
  top,      \* [names, version, sigs]  top-level targets; sigs = keys with a valid signature
  role,     \* d -> NoRole | [on, parent, keys, thr, m, names, version, sigs]
  editing,  \* "targets" | "d1" | "d2" | "none"
  dirty,    \* the edited role has unsigned changes (new content, signatures not yet made)
  signed,   \* "no" | "ok": RepositoryEditor::sign succeeded and the result was written
  ops       \* the program so far
vars == <<top, role, editing, dirty, signed, ops>>

\* Deep = TRUE: the program starts with a fixed prefix that builds targets -> d1 -> d2 (one key each, threshold 1,
\* every name delegated) and signs both, so that the few operations that follow reach the second level
DeepKey == CHOOSE k \in DKeys : TRUE
AllK == {101, 102, 103} \cup DKeys
DeepOps == << [op |-> "delegate_role", name |-> "d1", keys |-> {DeepKey}, thr |-> 1, m |-> Names],
              [op |-> "sign_targets_editor", keys |-> AllK],
              [op |-> "change_delegated_targets", role |-> "d1"],
              [op |-> "delegate_role", name |-> "d2", keys |-> {DeepKey}, thr |-> 1, m |-> Names],
              [op |-> "sign_targets_editor", keys |-> AllK] >>
DeepRole(parent) == [on |-> TRUE, parent |-> parent, keys |-> {DeepKey}, thr |-> 1, m |-> Names,
                     names |-> {}, version |-> 1, sigs |-> {DeepKey}]
Init == IF Deep
        THEN /\ top = [names |-> {}, version |-> 1, sigs |-> {103}]
             /\ role = [d \in DRoles |-> IF d = "d1" THEN DeepRole("targets") ELSE DeepRole("d1")]
             /\ editing = "none" /\ dirty = FALSE /\ signed = "no" /\ ops = DeepOps
        ELSE /\ top = [names |-> {}, version |-> 1, sigs |-> {}]
             /\ role = [d \in DRoles |-> NoRole]
             /\ editing = Top /\ dirty = TRUE /\ signed = "no" /\ ops = <<>>

Can == signed = "no" /\ Len(ops) < MaxOps
Log(o) == ops' = Append(ops, o)

\* content of the role being edited changes: its signatures no longer cover it
Touch(r, f(_)) ==
  IF r = Top THEN /\ top' = f(top) /\ UNCHANGED role
  ELSE /\ role' = [role EXCEPT ![r] = f(role[r])] /\ UNCHANGED top

AddTarget(n) ==
  /\ Can /\ editing # "none"
  /\ Touch(editing, LAMBDA x : [x EXCEPT !.names = @ \cup {n}, !.sigs = {}])
  /\ dirty' = TRUE /\ Log([op |-> "add_target", role |-> editing, name |-> n])
  /\ UNCHANGED <<editing, signed>>
RemoveTarget(n) ==
  /\ Can /\ editing # "none"
  /\ n \in (IF editing = Top THEN top.names ELSE role[editing].names)
  /\ Touch(editing, LAMBDA x : [x EXCEPT !.names = @ \ {n}, !.sigs = {}])
  /\ dirty' = TRUE /\ Log([op |-> "remove_target", role |-> editing, name |-> n])
  /\ UNCHANGED <<editing, signed>>
\* clear_targets: every target of the role being edited goes (only offered when there is one)
ClearTargets ==
  /\ Can /\ editing # "none"
  /\ (IF editing = Top THEN top.names ELSE role[editing].names) # {}
  /\ Touch(editing, LAMBDA x : [x EXCEPT !.names = {}, !.sigs = {}])
  /\ dirty' = TRUE /\ Log([op |-> "clear_targets", role |-> editing])
  /\ UNCHANGED <<editing, signed>>
BumpVersion ==
  /\ Can /\ editing # "none"
  /\ Touch(editing, LAMBDA x : [x EXCEPT !.version = @ + 1, !.sigs = {}])
  /\ dirty' = TRUE /\ Log([op |-> "version", role |-> editing])
  /\ UNCHANGED <<editing, signed>>

\* RepositoryEditor::delegate_role: the role being edited (targets, or d1) delegates to a new role,
\* which is created empty at version 1 and signed with all the keys given for it
DelegateRole(d, ks, thr, m) ==
  /\ Can /\ editing \in {Top, "d1"} /\ d # editing /\ ~role[d].on
  /\ ks # {} /\ (ThresholdChecked => thr <= Cardinality(ks))
  /\ IF editing = Top
     THEN /\ role' = [role EXCEPT ![d] = [on |-> TRUE, parent |-> Top, keys |-> ks, thr |-> thr, m |-> m,
                                          names |-> {}, version |-> 1, sigs |-> ks]]
          /\ top' = [top EXCEPT !.sigs = {}]
     ELSE /\ role' = [role EXCEPT ![d] = [on |-> TRUE, parent |-> editing, keys |-> ks, thr |-> thr, m |-> m,
                                          names |-> {}, version |-> 1, sigs |-> ks],
                                  ![editing].sigs = {}]
          /\ UNCHANGED top
  /\ dirty' = TRUE
  /\ Log([op |-> "delegate_role", name |-> d, keys |-> ks, thr |-> thr, m |-> m])
  /\ UNCHANGED <<editing, signed>>

\* sign_targets_editor(keys): SignedRole::new signs with the offered keys that the key holder
\* lists for the role and fails when fewer than the threshold sign
RoleKeys(r) == IF r = Top THEN {TopKey} ELSE role[r].keys
RoleThr(r)  == IF r = Top THEN 1 ELSE role[r].thr
SignEditor(ks) ==
  /\ Can /\ editing # "none"
  /\ Cardinality(ks \cap RoleKeys(editing)) >= RoleThr(editing)
  /\ Touch(editing, LAMBDA x : [x EXCEPT !.sigs = ks \cap RoleKeys(editing)])
  /\ editing' = "none" /\ dirty' = FALSE
  /\ Log([op |-> "sign_targets_editor", keys |-> ks])
  /\ UNCHANGED signed

\* change_delegated_targets(role): needs the editor to be cleared and the role to exist
ChangeTo(r) ==
  /\ Can /\ editing = "none" /\ (IF r = Top THEN TRUE ELSE role[r].on)
  /\ editing' = r /\ dirty' = FALSE
  /\ Log([op |-> "change_delegated_targets", role |-> r])
  /\ UNCHANGED <<top, role, signed>>

\* every listed target must be reachable through matching delegations (Targets::validate)
Chain(d) == IF role[d].parent = Top THEN role[d].m ELSE role[d].m \cap role[role[d].parent].m
PathsOk == \A d \in DRoles : role[d].on => role[d].names \subseteq Chain(d)
\* RepositoryEditor::sign(keys): signs the edited role (if any), snapshot and timestamp
Sign(ks) ==
  /\ Can /\ {101, 102} \subseteq ks /\ Len(ops) >= MinOps      \* MinOps: long programs in simulation
  /\ (editing # "none" => Cardinality(ks \cap RoleKeys(editing)) >= RoleThr(editing))
  /\ (editing = "none" => TRUE)
  /\ IF editing # "none"
     THEN Touch(editing, LAMBDA x : [x EXCEPT !.sigs = ks \cap RoleKeys(editing)])
     ELSE UNCHANGED <<top, role>>
  /\ PathsOk'
  /\ signed' = "ok" /\ editing' = "none" /\ dirty' = FALSE
  /\ Log([op |-> "sign", keys |-> ks])

\* signing attempts the editor must refuse: some, but fewer than the threshold, of the edited role's keys
Partial(ks) == /\ editing # "none"
               /\ RoleThr(editing) <= Cardinality(RoleKeys(editing))    \* a role the editor let us create
               /\ Cardinality(ks \cap RoleKeys(editing)) > 0
               /\ Cardinality(ks \cap RoleKeys(editing)) < RoleThr(editing)
SignRefused(ks) ==
  /\ ProbeRefusals /\ Can /\ {101, 102} \subseteq ks /\ Partial(ks)
  /\ signed' = "refused" /\ Log([op |-> "sign", keys |-> ks])
  /\ UNCHANGED <<top, role, editing, dirty>>
SignEditorRefused(ks, all) ==
  /\ ProbeRefusals /\ Can /\ Partial(ks)
  /\ signed' = "refused"
  /\ ops' = ops \o <<[op |-> "sign_targets_editor", keys |-> ks], [op |-> "sign", keys |-> all]>>
  /\ UNCHANGED <<top, role, editing, dirty>>

AllKeys == {101, 102, TopKey} \cup DKeys
KeySets == {AllKeys, AllKeys \ {TopKey}, {101, 102, TopKey}} \cup {AllKeys \ {k} : k \in DKeys}
Next ==
  \/ \E n \in Names : AddTarget(n) \/ RemoveTarget(n)
  \/ BumpVersion \/ ClearTargets
  \/ \E d \in DRoles, ks \in (SUBSET DKeys) \ {{}}, thr \in 1..2, m \in SUBSET Names : DelegateRole(d, ks, thr, m)
  \/ \E ks \in KeySets : SignEditor(ks) \/ Sign(ks) \/ SignRefused(ks) \/ SignEditorRefused(ks, AllKeys)
  \/ \E r \in DRoles \cup {Top} : ChangeTo(r)
Spec == Init /\ [][Next]_vars

-----------------------------------------------------------------------------
\* the client's view of what was written (TufClient / Delegation verification, restricted to
\* signer sets): every role must carry a threshold of valid signatures by its parent's keys
Verifies(sigs, keys, thr) == Cardinality(sigs \cap keys) >= thr
ClientLoads ==
  /\ Verifies(top.sigs, {TopKey}, 1)
  /\ \A d \in DRoles : role[d].on => Verifies(role[d].sigs, role[d].keys, role[d].thr)
  /\ PathsOk

\* C10
SignedLoads == signed = "ok" => ClientLoads
\* what the client must then see
View == [targets |-> top.names, tversion |-> top.version,
         roles |-> [d \in DRoles |-> IF role[d].on THEN [names |-> role[d].names, version |-> role[d].version,
                                                         thr |-> role[d].thr, keys |-> role[d].keys, parent |-> role[d].parent]
                                     ELSE [names |-> {}, version |-> 0, thr |-> 0, keys |-> {}, parent |-> "none"]]]

Emit == signed \in {"ok", "refused"} =>
          PrintT(<<"REPLAY", ToJson([ops |-> ops, view |-> View, loads |-> (signed = "ok" /\ ClientLoads), probe |-> (signed = "refused")])>>)
=============================================================================
