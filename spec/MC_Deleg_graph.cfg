SPECIFICATION Spec
CONSTANTS
  Mode = "graph"
  Roles = {"a", "b"}
  Names = {"n1"}
  MaxEdges = 3
  CycleCheck = TRUE
  Fuel = 6
INVARIANTS Terminates RequestsBoundedByEdges
CHECK_DEADLOCK FALSE
