SPECIFICATION Spec
CONSTANTS
  MaxAdd = 2
  SnapshotExtraKept = TRUE
INVARIANTS Preserved Emit
CHECK_DEADLOCK FALSE
