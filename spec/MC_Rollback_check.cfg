SPECIFICATION Spec
CONSTANTS
  V = 3
  ChainId = "tsRotateBack"
  ShipMode = "newest"
  Cons = FALSE
  MaxCycles = 3
  MaxRootUpdates = 4
  Times = {0}
  ClockMoves = FALSE
  EnforceChoices = {TRUE}
  Reads = FALSE
  MaxReads = 0
  Shipped <- MC_Shipped
  ShipRule <- MC_ShipRule
  CandRoot <- MC_CandRoot
  CandTs <- MC_CandTs
  CandSn <- MC_CandSn
  CandTg <- MC_CandTg
  Limit <- MC_Limit
  Chain0 <- TheChain
VIEW view
INVARIANTS RollbackInv RecoversAfterRotation NoLockout TrustedVerified PinsMatch NeverBelowShipped RootReqsConsecutive RequestsBounded WalkDoublySigned WalkEndsAtRoot
CHECK_DEADLOCK FALSE
