-------------------------------- MODULE Http --------------------------------
(***************************************************************************)
(* The retrying HTTP fetch of tough/src/http.rs (RetryStream) against a    *)
(* server that answers each request with any of the responses of property  *)
(* C18, chosen when the request arrives.                                   *)
(*                                                                         *)
(* Client state mirrors RetryState / RetryStream: current_try, next_byte,  *)
(* has_range_support, and the phase of the request in flight.              *)
(*                                                                         *)
(* CountFirst  = TRUE : may_retry counts the failed try before comparing   *)
(*                      with the budget (tries = n => at most n requests)  *)
(*             = FALSE: the budget is compared first (n + 1 requests)      *)
(* NeedPartial = TRUE : a resumed request (Range sent) must be answered    *)
(*                      206, anything else fails the fetch                 *)
(*             = FALSE: any 2xx body is appended to what was delivered     *)
(***************************************************************************)
EXTENDS Naturals, Sequences, FiniteSets, TLC, Json

CONSTANTS Tries, Size, Announce, CountFirst, NeedPartial
\* Tries: retry budget; Size: resource length in units; Announce: server sends Accept-Ranges: bytes

Resource == [j \in 1..Size |-> j]

Answers == {[a |-> x, k |-> 0] : x \in {"200full", "206rest", "500", "403", "404", "410", "400", "416"}}
           \cup {[a |-> "stall", k |-> k] : k \in 0..(Size - 1)}   \* 200, k units, then silence

VARIABLES
  phase,      \* "request" (a request is in flight) | "done"
  try,        \* retry_state.current_try
  nextByte,   \* retry_state.next_byte
  hasRange,   \* has_range_support
  delivered,  \* units handed to the caller, in order
  reqs,       \* requests made: sequence of range starts, -1 for a request without Range header
  answers,    \* what the server answered, in order
  result      \* "running" | "ok" | "notfound" | "error"
vars == <<phase, try, nextByte, hasRange, delivered, reqs, answers, result>>

Req(nb) == IF nb = 0 THEN 0 - 1 ELSE nb      \* build_request: Range only when next_byte > 0

Init == /\ phase = "request" /\ try = 0 /\ nextByte = 0 /\ hasRange = FALSE
        /\ delivered = <<>> /\ reqs = <<Req(0)>> /\ answers = <<>> /\ result = "running"

Finish(r) == phase' = "done" /\ result' = r

\* may_retry, then either a new request or the error
Retry(nb, hr) ==
  LET left == IF CountFirst THEN Tries - (try + 1) ELSE Tries - try
      ok   == left > 0 /\ (hr \/ nb = 0)
  IN /\ try' = try + 1
     /\ IF ok THEN /\ reqs' = Append(reqs, Req(nb)) /\ UNCHANGED <<phase, result>>
              ELSE /\ Finish("error") /\ UNCHANGED reqs

\* body of a 2xx answer as the server sends it: whole resource, or the rest from the range start
Body(a, rangeStart) == IF a = "206rest" /\ rangeStart >= 0 THEN SubSeq(Resource, rangeStart + 1, Size)
                       ELSE Resource

Respond ==
  /\ phase = "request"
  /\ \E ans \in Answers :
       LET a == ans.a
           rs == reqs[Len(reqs)]                 \* range start of the request in flight, or -1
           resumed == rs >= 0
       IN
       /\ answers' = Append(answers, ans)
       /\ CASE a \in {"403", "404", "410"} ->
                 /\ Finish("notfound") /\ UNCHANGED <<try, nextByte, hasRange, delivered, reqs>>
            [] a \in {"400", "416"} ->
                 /\ Finish("error") /\ UNCHANGED <<try, nextByte, hasRange, delivered, reqs>>
            [] a = "500" ->
                 /\ Retry(nextByte, hasRange) /\ UNCHANGED <<nextByte, hasRange, delivered>>
            [] OTHER ->      \* a 2xx answer: 200 full, 206 remainder, or 200 stalled after k units
                 LET status == IF a = "206rest" /\ resumed THEN 206 ELSE 200
                     hr == hasRange \/ Announce
                     body == IF a \in {"200full", "206rest"} THEN Body(a, rs)
                             ELSE SubSeq(Resource, 1, ans.k)
                     stalls == a \notin {"200full", "206rest"}
                 IN
                 IF NeedPartial /\ resumed /\ status # 206
                 THEN /\ Finish("error") /\ hasRange' = hr
                      /\ UNCHANGED <<try, nextByte, delivered, reqs>>
                 ELSE /\ hasRange' = hr
                      /\ delivered' = delivered \o body
                      /\ nextByte' = nextByte + Len(body)
                      /\ IF stalls
                         THEN Retry(nextByte + Len(body), hr)          \* timeout while streaming
                         ELSE Finish("ok") /\ UNCHANGED <<try, reqs>>

Next == Respond
Spec == Init /\ [][Next]_vars

-----------------------------------------------------------------------------
\* C18
IsPrefix(s, t) == Len(s) <= Len(t) /\ SubSeq(t, 1, Len(s)) = s
PrefixOnly == IsPrefix(delivered, Resource)
OkMeansComplete == result = "ok" => delivered = Resource
RequestsAtMostTries == Len(reqs) <= Tries
\* a Range header is sent only after the server announced support, and names the next missing byte
RangeOnlyIfAnnounced ==
  \A i \in DOMAIN reqs : reqs[i] >= 0 =>
     /\ Announce
     /\ reqs[i] > 0
NotFoundClass == \A i \in DOMAIN answers : answers[i].a \in {"403", "404", "410"} => result = "notfound" /\ i = Len(answers)
ClientErrorsFailFast == \A i \in DOMAIN answers : answers[i].a \in {"400", "416"} => result = "error" /\ i = Len(answers)
\* transient failures within the budget do not fail the fetch by themselves
Done == phase = "done"
Emit == Done => PrintT(<<"REPLAY", ToJson([tries |-> Tries, size |-> Size, announce |-> Announce,
                         answers |-> answers, reqs |-> reqs, result |-> result, delivered |-> Len(delivered)])>>)
=============================================================================
