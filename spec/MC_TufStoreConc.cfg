SPECIFICATION Spec
CONSTANTS
  Old = 2
  Pairs <- MCPairs
INVARIANTS NeverTorn NeverBelowEarlier FollowNeverBelowEarlier SuccessNotOlder RefusedMeansOlder LoweredOnlyIfOverlapping
CHECK_DEADLOCK FALSE
