SPECIFICATION Spec
CONSTANTS
  KeyIds = {1, 2, 3}
  MaxCmds = 6
  CountOwnKeysOnly = TRUE
  CrossAppends = FALSE
  WriteOnlyNew = FALSE
VIEW view
INVARIANTS PlainSignSelfVerifies EditsClearSigs NoStaleEntries
CHECK_DEADLOCK FALSE
