SPECIFICATION Spec
CONSTANTS
  KeyIds = {1, 2, 3}
  MaxCmds = 6
  CountOwnKeysOnly = TRUE
VIEW view
INVARIANTS PlainSignSelfVerifies EditsClearSigs
CHECK_DEADLOCK FALSE
