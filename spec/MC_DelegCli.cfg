SPECIFICATION Spec
CONSTANTS
  MaxSteps = 8
  MaxVer = 3
  Plans <- MC_AnyPlan
VIEW view
INVARIANTS PublishedLoads PathsHold
PROPERTIES IncorporatedMeansAuthorized RoleVersionsMonotone
CHECK_DEADLOCK FALSE
