SPECIFICATION Spec
CONSTANTS
  VerSet <- SmallVers
INVARIANTS IndInv
CHECK_DEADLOCK FALSE
