SPECIFICATION Spec
CONSTANTS
  L = 2
  Lens = {1, 2, 3}
  Spread = FALSE
  MaxCycles = 1
  MaxRootUpdates = 2
  Times = {0}
  ClockMoves = FALSE
  EnforceChoices = {TRUE}
  Reads = FALSE
  MaxReads = 0
  Shipped <- MC_Shipped
  ShipRule <- MC_ShipRule
  CandRoot <- MC_CandRoot
  CandTs <- MC_CandTs
  CandSn <- MC_CandSn
  CandTg <- MC_CandTg
  Limit <- MC_Limit
  Chain0 <- NoChain
VIEW view
INVARIANTS SizesBounded RequestsBounded RootRequestsBounded LegitNotRefused PinsMatch
CHECK_DEADLOCK FALSE
