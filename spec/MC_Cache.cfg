SPECIFICATION Spec
CONSTANTS
  Targets = {"t1", "t2", "d/x", "d/e/y"}
  MaxRoot = 3
INVARIANTS RootChainComplete Emit
CHECK_DEADLOCK FALSE
