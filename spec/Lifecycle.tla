------------------------------ MODULE Lifecycle ------------------------------
(***************************************************************************)
(* One repository through its life as the `tuftool` commands and a client  *)
(* with a persistent datastore see it: create, update (add or replace      *)
(* targets, set any versions), transfer-metadata to a new root, a client   *)
(* refreshing from it, clone and download.  System-level counterpart of    *)
(* Editor.tla / EditorUpdate.tla / Cache.tla / TufClient.tla: the commands *)
(* of tuftool/src/{create,update,transfer_metadata,clone,download}.rs are  *)
(* the actions, the directories they leave behind are the state.           *)
(*                                                                         *)
(* Abstractions: a target's content is an identifier 1..MaxContent (0 =    *)
(* the name is not listed); versions are small naturals; all expirations   *)
(* are far in the future; every document is honestly signed by the keys    *)
(* the root in force lists (forgeries are TufClient.tla's business).       *)
(***************************************************************************)
EXTENDS Naturals, Sequences, FiniteSets, TLC, Json

CONSTANTS NameSeq, MaxVer, MaxContent, MaxSteps, Rotations, Foreign, Plans, Expiry

Names == {NameSeq[i] : i \in DOMAIN NameSeq}     \* NameSeq: the names in the order commands take them

Vers   == [ts : 1..MaxVer, sn : 1..MaxVer, tg : 1..MaxVer]
\* expirations the operator gives a role: TRUE = a date in the past (Expiry = FALSE: never)
Fresh  == [ts |-> FALSE, sn |-> FALSE, tg |-> FALSE]
Exps   == IF Expiry THEN [ts : BOOLEAN, sn : BOOLEAN, tg : BOOLEAN] ELSE {Fresh}
Allows == IF Expiry THEN BOOLEAN ELSE {FALSE}       \* --allow-expired-repo
IsExpired(e) == e.ts \/ e.sn \/ e.tg
Absent == [x \in Names |-> 0]

VARIABLES
  pub,    \* the published repository (metadata + targets directory)
  cli,    \* the client's datastore: versions of the stored timestamp, snapshot, the targets
          \* version that stored snapshot lists, and the stored targets (0 = none)
  cl,     \* the clone directories
  dl,     \* the download directory
  mono,   \* every update so far published versions not lower than the ones before
  last,   \* the last command and its outcome
  n,      \* number of commands so far
  hist,   \* the commands with the state they are expected to leave (replay script)
  plan    \* <<>>: any command at any time; otherwise the kinds of command to run, in order (only
          \* used to spread generated behaviours evenly over the kinds of command)
vars == <<pub, cli, cl, dl, mono, last, n, hist, plan>>
view == <<pub, cli, cl, dl, mono, last, n, plan>>

NoPub == [on |-> FALSE, root |-> 1, rot |-> "none", ver |-> [ts |-> 0, sn |-> 0, tg |-> 0],
          tset |-> Absent, files |-> {}, extra |-> FALSE, exp |-> Fresh]
NoCli == [ts |-> 0, sn |-> 0, sntg |-> 0, tg |-> 0, epTs |-> 0, epSn |-> 0]
\* epTs / epSn: which online keys signed the stored timestamp / snapshot (1: the keys of root 1, 2: the keys a
\* transfer with kind "online" introduced, 0: nothing stored); a stored document whose signature does not verify
\* under the root in force is ignored by the rollback checks (and stays in the datastore until overwritten)
Epoch == IF pub.rot = "online" THEN 2 ELSE 1
NoCl  == [on |-> FALSE, root |-> 0, ver |-> [ts |-> 0, sn |-> 0, tg |-> 0], meta |-> Absent, files |-> {}, exp |-> Fresh]
NoDl  == [on |-> FALSE, tset |-> Absent]

Init == /\ pub = NoPub /\ cli = NoCli /\ cl = NoCl /\ dl = NoDl /\ mono = TRUE
        /\ last = [act |-> "none", ok |-> TRUE, err |-> ""] /\ n = 0 /\ hist = <<>>
        /\ plan \in Plans

Kinds == {"create", "foreign", "update", "transfer", "refresh", "clone", "download"}
Can(kind) == n < MaxSteps /\ (plan = <<>> \/ (n < Len(plan) /\ plan[n + 1] = kind))
Proj(p, c, k, d) == [pub |-> p, cli |-> c, cl |-> k, dl |-> d]
Step(cmd, ok, err, p, c, k, d) ==
  /\ last' = [act |-> cmd.act, ok |-> ok, err |-> err]
  /\ n' = n + 1
  /\ hist' = Append(hist, [cmd |-> cmd, ok |-> ok, err |-> err, before |-> IsExpired(pub.exp), after |-> Proj(p, c, k, d)])
  /\ pub' = p /\ cli' = c /\ cl' = k /\ dl' = d /\ UNCHANGED plan

\* a tool that loads the published repository first (update, transfer-metadata, clone, download) fails
\* on expired metadata unless it is told --allow-expired-repo
ToolLoads(allow) == allow \/ ~IsExpired(pub.exp)
Listed(ts) == {x \in Names : ts[x] # 0}
Files(ts)  == {<<x, ts[x]>> : x \in Listed(ts)}
\* names are handled in order; the first one the repository does not list stops the command
Before(want, listed) ==
  {NameSeq[j] : j \in {i \in DOMAIN NameSeq : /\ NameSeq[i] \in want
                                               /\ \A k \in 1..i : NameSeq[k] \in want => NameSeq[k] \in listed}}
\* what a client of the clone can read: listed by the cloned metadata, file present
Readable(k) == [x \in Names |-> IF k.meta[x] # 0 /\ <<x, k.meta[x]>> \in k.files THEN k.meta[x] ELSE 0]

-----------------------------------------------------------------------------
\* tuftool create: a directory of files becomes the repository at versions 1
Create(T) ==
  /\ Can("create") /\ ~pub.on
  /\ LET ts == [x \in Names |-> IF x \in T THEN 1 ELSE 0]
         p  == [NoPub EXCEPT !.on = TRUE, !.ver = [ts |-> 1, sn |-> 1, tg |-> 1], !.tset = ts, !.files = Files(ts)]
     IN Step([act |-> "create", targets |-> T], TRUE, "", p, cli, cl, dl) /\ UNCHANGED mono

\* a repository written by another implementation: every role carries an unknown top-level
\* member; same versions, same targets, honestly signed (the harness's own writer)
ForeignResign ==
  /\ Can("foreign") /\ Foreign /\ pub.on /\ ~pub.extra /\ pub.root = 1
  /\ Step([act |-> "foreign"], TRUE, "", [pub EXCEPT !.extra = TRUE], cli, cl, dl) /\ UNCHANGED mono

\* tuftool update: loads the repository, adds the files of a directory (a listed name is
\* replaced), sets the three versions to whatever the operator says, signs, links the added
\* files into the targets directory and writes the metadata
Update(A, c, v, e, allow) ==
  /\ Can("update") /\ pub.on
  /\ LET ts  == [x \in Names |-> IF x \in A THEN c ELSE pub.tset[x]]
         p   == [pub EXCEPT !.ver = v, !.tset = ts, !.files = @ \cup {<<x, c>> : x \in A}, !.exp = e]
         cmd == [act |-> "update", add |-> A, content |-> c, ver |-> v, exp |-> e, allow |-> allow]
     IN IF ~ToolLoads(allow) THEN Step(cmd, FALSE, "RepoLoad", pub, cli, cl, dl) /\ UNCHANGED mono
        ELSE /\ Step(cmd, TRUE, "", p, cli, cl, dl)
             /\ mono' = (mono /\ v.ts >= pub.ver.ts /\ v.sn >= pub.ver.sn /\ v.tg >= pub.ver.tg)

\* tuftool transfer-metadata: the top-level targets are carried under a new root (version 2,
\* signed by the old root key as well); "same": same role keys, "online": new timestamp and
\* snapshot keys.  Unknown members and delegations are not carried (the command copies targets).
Transfer(kind, v, e, allow) ==
  /\ Can("transfer") /\ pub.on /\ pub.root = 1 /\ kind \in Rotations
  /\ LET p   == [pub EXCEPT !.root = 2, !.rot = kind, !.ver = v, !.extra = FALSE, !.exp = e]
         cmd == [act |-> "transfer", kind |-> kind, ver |-> v, exp |-> e, allow |-> allow]
     IN IF ~ToolLoads(allow) THEN Step(cmd, FALSE, "RepoLoad", pub, cli, cl, dl) /\ UNCHANGED mono
        ELSE /\ Step(cmd, TRUE, "", p, cli, cl, dl)
             /\ mono' = (mono /\ v.ts >= pub.ver.ts /\ v.sn >= pub.ver.sn /\ v.tg >= pub.ver.tg)

\* a client shipping root 1, with its datastore, loads the repository (tough::RepositoryLoader).
\* lib.rs load_root 1.9: when the final root's timestamp or snapshot keys differ from the shipped
\* root's, the stored timestamp and snapshot are deleted -- on every refresh, as long as the client
\* ships the old root (known finding F2-stale-shipped-root).
RefreshResult(newest) ==
  LET \* a client shipping root 1 walks to the newest root; one shipping the newest root starts there.  Step 1.9
      \* compares the SHIPPED root's online keys with the final root's
      wipe == ~newest /\ pub.rot = "online"
      st == IF wipe THEN [cli EXCEPT !.ts = 0, !.sn = 0, !.sntg = 0, !.epTs = 0, !.epSn = 0] ELSE cli
      v  == pub.ver
      e  == pub.exp      \* in every phase: rollback check, then expiry, then the document is stored
      cTs == IF st.epTs = Epoch THEN st.ts ELSE 0        \* what the stored documents still say
      cSn == IF st.epSn = Epoch THEN st.sn ELSE 0
      cSnTg == IF st.epSn = Epoch THEN st.sntg ELSE 0
  IN IF cTs > v.ts THEN [ok |-> FALSE, err |-> "Older:timestamp", st |-> st]
     ELSE IF e.ts THEN [ok |-> FALSE, err |-> "Expired:timestamp", st |-> st]
     ELSE LET s1 == [st EXCEPT !.ts = v.ts, !.epTs = Epoch] IN
     IF cSn > v.sn THEN [ok |-> FALSE, err |-> "Older:snapshot", st |-> s1]
     ELSE IF cSnTg > v.tg THEN [ok |-> FALSE, err |-> "Older:targets", st |-> s1]
     ELSE IF e.sn THEN [ok |-> FALSE, err |-> "Expired:snapshot", st |-> s1]
     ELSE LET s2 == [s1 EXCEPT !.sn = v.sn, !.sntg = v.tg, !.epSn = Epoch] IN
     IF s2.tg > v.tg THEN [ok |-> FALSE, err |-> "Older:targets", st |-> s2]
     ELSE IF e.tg THEN [ok |-> FALSE, err |-> "Expired:targets", st |-> s2]
     ELSE [ok |-> TRUE, err |-> "", st |-> [s2 EXCEPT !.tg = v.tg]]
Refresh(newest) ==
  /\ Can("refresh") /\ pub.on /\ last.act # "refresh"
  /\ (newest => pub.root = 2)         \* root 1 is the newest root until a transfer
  /\ LET r == RefreshResult(newest) IN Step([act |-> "refresh", newest |-> newest], r.ok, r.err, pub, r.st, cl, dl)
  /\ UNCHANGED mono

\* tuftool clone [-n name]...: a fresh client shipping root 1 loads the repository, saves the named
\* targets (all when none is named) under their digest-prefixed names, then caches the metadata
\* and the root chain.  A name the repository does not list fails the command: the targets before
\* it are there, the metadata is not written.
Clone(S, all, allow) ==
  /\ Can("clone") /\ pub.on
  /\ LET want == IF all THEN Listed(pub.tset) ELSE S
         bad  == want \ Listed(pub.tset)
         done == Before(want, Listed(pub.tset))
         fs   == cl.files \cup {<<x, pub.tset[x]>> : x \in done}
         k    == [on |-> TRUE, root |-> pub.root, ver |-> pub.ver, meta |-> pub.tset, files |-> fs, exp |-> pub.exp]
         cmd  == [act |-> "clone", names |-> S, all |-> all, allow |-> allow]
     IN IF ~ToolLoads(allow) THEN Step(cmd, FALSE, "RepoLoad", pub, cli, cl, dl)
        ELSE IF bad = {} THEN Step(cmd, TRUE, "", pub, cli, k, dl)
        ELSE Step(cmd, FALSE, "TargetNotFound", pub, cli, [cl EXCEPT !.files = fs], dl)
  /\ UNCHANGED mono

\* tuftool download [-n name]... <outdir>: refuses an existing output directory; saves the named
\* targets (all when none is named) under their plain names
Download(S, all, allow) ==
  /\ Can("download") /\ pub.on
  /\ LET want == IF all THEN Listed(pub.tset) ELSE S
         bad  == want \ Listed(pub.tset)
         done == Before(want, Listed(pub.tset))
         got  == [x \in Names |-> IF x \in done THEN pub.tset[x] ELSE 0]
         c    == [act |-> "download", names |-> S, all |-> all, allow |-> allow]
     IN IF dl.on THEN Step(c, FALSE, "OutdirExists", pub, cli, cl, dl)
        ELSE IF ~ToolLoads(allow) THEN Step(c, FALSE, "RepoLoad", pub, cli, cl, dl)
        ELSE Step(c, bad = {}, IF bad = {} THEN "" ELSE "TargetNotFound", pub, cli, cl, [on |-> TRUE, tset |-> got])
  /\ UNCHANGED mono

Next ==
  \/ \E T \in SUBSET Names : Create(T)
  \/ ForeignResign
  \/ \E A \in SUBSET Names, c \in 1..MaxContent, v \in Vers, e \in Exps, al \in Allows : Update(A, c, v, e, al)
  \/ \E k \in Rotations, v \in Vers, e \in Exps, al \in Allows : Transfer(k, v, e, al)
  \/ Refresh(FALSE) \/ Refresh(TRUE)
  \/ \E S \in (SUBSET Names) \ {{}}, al \in Allows : Clone(S, FALSE, al) \/ Download(S, FALSE, al)
  \/ \E al \in Allows : Clone({}, TRUE, al) \/ Download({}, TRUE, al)
Spec == Init /\ [][Next]_vars

-----------------------------------------------------------------------------
TypeOK == /\ pub.on => pub.ver \in Vers
          /\ cli.ts \in 0..MaxVer /\ cli.sn \in 0..MaxVer /\ cli.tg \in 0..MaxVer /\ cli.sntg \in 0..MaxVer
          /\ cli.epTs \in 0..2 /\ cli.epSn \in 0..2

\* C17 at the command level: an update changes only what it was told to change
UpdateKeeps ==
  [][last'.act = "update" /\ n' = n + 1 =>
       LET cmd == hist'[Len(hist')].cmd IN
       /\ \A x \in Names \ cmd.add : pub'.tset[x] = pub.tset[x]
       /\ pub'.extra = pub.extra /\ pub'.root = pub.root
       /\ pub.files \subseteq pub'.files]_vars
\* transfer keeps the target set
TransferKeeps == [][last'.act = "transfer" /\ n' = n + 1 => pub'.tset = pub.tset /\ pub'.files = pub.files]_vars

\* C03/C14 at the system level: what the client trusts never goes back, except the timestamp
\* and snapshot versions after their keys were replaced
ClientMonotone ==
  [][/\ cli'.tg >= cli.tg
     /\ (pub.rot # "online" => cli'.ts >= cli.ts /\ cli'.sn >= cli.sn /\ cli'.sntg >= cli.sntg)]_vars
\* a successful refresh trusts exactly what is published
RefreshSeesPublished ==
  last.act = "refresh" /\ last.ok => cli.ts = pub.ver.ts /\ cli.sn = pub.ver.sn /\ cli.tg = pub.ver.tg /\ cli.sntg = pub.ver.tg
\* a publisher that never lowers a version never locks its clients out
MonotonePublisherServes == last.act = "refresh" /\ mono /\ ~IsExpired(pub.exp) => last.ok
\* a refusal is always about a version that went down
RefusalMeansRollback == last.act = "refresh" /\ ~last.ok => ~mono \/ IsExpired(pub.exp)
\* C04 at the system level: a client with enforcement on never ends a refresh successfully on expired metadata,
\* and a tool without --allow-expired-repo never acts on it
ExpiredNeverTrusted == last.act = "refresh" /\ last.ok => ~IsExpired(pub.exp)
ToolsRefuseExpired ==
  last.act \in {"update", "transfer", "clone", "download"} /\ last.ok /\ Len(hist) > 0 =>
     LET h == hist[Len(hist)] IN h.cmd.allow \/ ~h.before

\* C19 at the command level
CloneFaithful ==
  last.act = "clone" /\ last.ok =>
     /\ cl.ver = pub.ver /\ cl.root = pub.root
     /\ cl.meta = pub.tset
     /\ LET c == hist[Len(hist)].cmd
            want == IF c.all THEN Listed(pub.tset) ELSE c.names
        IN \A x \in want : Readable(cl)[x] = pub.tset[x] /\ pub.tset[x] # 0
DownloadFaithful ==
  last.act = "download" /\ last.ok =>
     LET c == hist[Len(hist)].cmd
         want == IF c.all THEN Listed(pub.tset) ELSE c.names
     IN \A x \in Names : dl.tset[x] = (IF x \in want THEN pub.tset[x] ELSE 0)
\* nothing a client can read from the clone differs from what the cloned metadata lists
CloneNeverWrong == \A x \in Names : Readable(cl)[x] # 0 => Readable(cl)[x] = cl.meta[x]
\* every listed target has its file
PublishedComplete == pub.on => Files(pub.tset) \subseteq pub.files

Done == n = MaxSteps
Emit == Done => PrintT(<<"REPLAY", ToJson([steps |-> hist])>>)
=============================================================================
