------------------------------ MODULE TufClient ------------------------------
(***************************************************************************)
(* The update cycle of the tough client (tough/src/lib.rs Repository::load *)
(* and its helpers) over a persistent datastore, a clock and an            *)
(* attacker-controlled repository server.                                  *)
(*                                                                         *)
(* One action per fetch phase, in the order of lib.rs: the request, the    *)
(* checks that follow it, the clock sample of the expiry check and the     *)
(* datastore write happen in one step (the library is sequential; the      *)
(* file-operation-level unfolding used for crash points lives in           *)
(* TufStore.tla).  Whatever the server answers is chosen lazily, at the    *)
(* fetch, from candidate sets supplied by the model-checking module.       *)
(*                                                                         *)
(* Documents are records:                                                  *)
(*   root: [k,v,exp,len,b,signers,cons,rk,rthr,ts,tsthr,sn,snthr,tg,tgthr] *)
(*         rk a set of keys; ts/sn/tg ORDERED key lists (the code compares *)
(*         them as lists in step 1.9)                                      *)
(*   ts  : [k,v,exp,len,b,signers,pin]      pin = [v,h,len] of snapshot    *)
(*   sn  : [k,v,exp,len,b,signers,pin]      pin = that of targets.json     *)
(*   tg  : [k,v,exp,len,b,signers]                                         *)
(* signers = the set of keys with a VALID signature over this content      *)
(* (Threshold.tla refines a signature list into this set).  b is the byte  *)
(* variant of the file: same signed content, other bytes, other digest.    *)
(* A pin has v = 0 when the entry is missing, h = NoDoc when no digest is  *)
(* listed (otherwise h is the pinned file itself: the digest is modelled   *)
(* as the identity) and len = 0 when no length is listed.                  *)
(* Served non-documents: absent, fetcherr, streamerr, garbage, endless.    *)
(***************************************************************************)
EXTENDS Naturals, Integers, Sequences, FiniteSets, TLC, Json

CONSTANTS
  Shipped,          \* set of root documents an application may ship / start a cycle from
  CandRoot(_, _),   \* (n, trusted root) -> set of answers to the request for n.root.json
  CandTs(_),        \* (final root) -> answers to timestamp.json
  CandSn(_, _),     \* (final root, trusted timestamp) -> answers to [v.]snapshot.json
  CandTg(_, _),     \* (final root, trusted snapshot) -> answers to [v.]targets.json
  Limit,            \* [root, ts, sn, tg] size limits in units; MaxRootUpdates below
  MaxRootUpdates,
  MaxCycles,
  Times,            \* clock values the environment may jump to
  ClockMoves,       \* BOOLEAN: environment may move the clock between phases
  EnforceChoices,   \* subset of BOOLEAN: expiration enforcement settings explored
  Reads,            \* BOOLEAN: target reads on the loaded repository are explored
  MaxReads,         \* at most this many reads per loaded repository
  ShipRule(_, _),   \* (candidate shipped root, highest root verified so far) -> BOOLEAN
  Chain0            \* the genuine root chain (key history): Chain0[v] = root document version v

VARIABLES
  pc,        \* "idle" | "root" | "rootdone" | "ts" | "sn" | "tg" | "loaded"
  cyc,       \* number of cycles started
  shipped,   \* the root this cycle started from
  root,      \* the root trusted so far in this cycle
  cur,       \* [ts, sn, tg] documents trusted so far in this cycle
  store,     \* datastore: [ts, sn, tg] each a document, NoDoc or Garbage
  known,     \* latest_known_time.json: -1 when absent
  now,       \* the system clock
  enforce,   \* expiration enforcement of this cycle
  reqs,      \* requests of this cycle: sequence of <<role, version-prefix or 0>>
  res,       \* result of the last finished operation
  succ,      \* observable history: one record per successful cycle
  maxRoot,   \* highest root version this client has verified in any cycle
  stale,     \* number of cycles started from a shipped root older than maxRoot
  walk,      \* the roots trusted in this cycle, in order: the shipped one, then each adopted one
  nread,     \* target reads since the repository was loaded
  reord,     \* number of cycles in which step 1.9 fired although key SETS and thresholds were equal
  last,      \* the last phase event: [ev, s] (what was served), for properties about errors
  chain,     \* the published root chain (constant during a behaviour; a variable so that
             \* recorded traces can carry their own)
  hist       \* every environment choice and outcome (replay generation; hidden by VIEW)

vars == <<pc, cyc, shipped, root, cur, store, known, now, enforce, reqs, res, succ, maxRoot, stale, walk, reord, nread, last, chain, hist>>
view == <<pc, cyc, shipped, root, cur, store, known, now, enforce, reqs, res, succ, maxRoot, stale, walk, reord, nread, last, chain>>

NoDoc   == [k |-> "none"]
Garbage == [k |-> "garbage"]
NoPin   == [v |-> 0, h |-> NoDoc, len |-> 0]
IsDoc(d) == d.k \in {"root", "ts", "sn", "tg"}

Range(s) == {s[i] : i \in DOMAIN s}
Verifies(signers, keys, thr) == Cardinality(signers \cap keys) >= thr
Expired(d, t) == t > d.exp             \* expiry instants lie strictly between clock values
FileHash(d) == d                       \* digest of a served file = the file (collision-free)
Min(a, b) == IF a < b THEN a ELSE b

NoCur == [ts |-> NoDoc, sn |-> NoDoc, tg |-> NoDoc]
KeySet(r, role) == CASE role = "ts" -> <<Range(r.ts), r.tsthr>>
                     [] role = "sn" -> <<Range(r.sn), r.snthr>>
                     [] role = "tg" -> <<Range(r.tg), r.tgthr>>

-----------------------------------------------------------------------------
\* Pure outcome operators, one per phase.  They return the result class; "ok"/"adopt"/"stop"
\* continue the cycle, anything else is the error the cycle ends with.

\* transport / size / digest / parse stage common to all fetches (tough/src/fetch.rs, io.rs)
FetchStage(s, bound, pinhash, who) ==
  CASE s.k = "absent"    -> "NotFound"
    [] s.k = "fetcherr"  -> "Transport"
    [] s.k = "streamerr" -> "Transport"
    [] s.k = "endless"   -> "MaxSize"
    [] s.k = "garbage"   -> IF s.len > bound THEN "MaxSize"
                            ELSE IF pinhash # NoDoc THEN "HashMismatch" ELSE who
    [] OTHER             -> IF s.len > bound THEN "MaxSize"
                            ELSE IF pinhash # NoDoc /\ FileHash(s) # pinhash THEN "HashMismatch"
                            ELSE "ok"

\* lib.rs load_root, loop body.  Fetch errors of N+1.root.json end the walk like "not found".
RootOutcome(tr, s) ==
  CASE s.k \in {"absent", "fetcherr"} -> "stop"
    [] s.k = "streamerr" -> "Transport"
    [] s.k = "endless"   -> "MaxSize"
    [] s.k = "garbage"   -> IF s.len > Limit.root THEN "MaxSize" ELSE "Parse:root"
    [] OTHER ->
         IF s.len > Limit.root THEN "MaxSize"
         ELSE IF ~Verifies(s.signers, tr.rk, tr.rthr) THEN "Verify:root"   \* 1.3 old keys
         ELSE IF ~Verifies(s.signers, s.rk, s.rthr)   THEN "Verify:root"   \* 1.3 new keys
         ELSE IF s.v < tr.v THEN "Older:root"                              \* 1.4
         ELSE IF s.v = tr.v THEN "stop"                                    \* off-spec: silently
         ELSE "adopt"                                                      \* also when skipping ahead

\* a stored document takes part in the rollback check only if it parses AND verifies under
\* the final root (lib.rs: `if let Some(Ok(old)) ... if root.signed.verify_role(&old).is_ok()`)
Counts(old, keys, thr) == IsDoc(old) /\ Verifies(old.signers, Range(keys), thr)

TsOutcome(r, s, st) ==
  LET f == FetchStage(s, Limit.ts, NoDoc, "Parse:timestamp") IN
  IF f # "ok" THEN f
  ELSE IF ~Verifies(s.signers, Range(r.ts), r.tsthr) THEN "Verify:timestamp"
  ELSE IF Counts(st.ts, r.ts, r.tsthr) /\ st.ts.v > s.v THEN "Older:timestamp"
  ELSE "ok"

SnBound(ts) == IF ts.pin.len # 0 THEN ts.pin.len ELSE Limit.sn
SnOutcome(r, ts, s, st) ==
  IF ts.pin.v = 0 THEN "MetaMissing"
  ELSE LET f == FetchStage(s, SnBound(ts), ts.pin.h, "Parse:snapshot") IN
  IF f # "ok" THEN f
  ELSE IF s.v # ts.pin.v THEN "VersionMismatch:snapshot"                   \* 3.1
  ELSE IF ~Verifies(s.signers, Range(r.sn), r.snthr) THEN "Verify:snapshot" \* 3.2
  ELSE IF Counts(st.sn, r.sn, r.snthr) /\ st.sn.v > s.v THEN "Older:snapshot"   \* 3.3.2
  ELSE IF Counts(st.sn, r.sn, r.snthr) /\ st.sn.pin.v # 0 /\ s.pin.v = 0 THEN "MetaMissing" \* 3.3.3
  ELSE IF Counts(st.sn, r.sn, r.snthr) /\ st.sn.pin.v # 0 /\ st.sn.pin.v > s.pin.v THEN "Older:targets"
  ELSE "ok"

TgBound(sn) == IF sn.pin.len # 0 THEN sn.pin.len ELSE Limit.tg
TgOutcome(r, sn, s, st) ==
  IF sn.pin.v = 0 THEN "MetaMissing"
  ELSE LET f == FetchStage(s, TgBound(sn), sn.pin.h, "Parse:targets") IN
  IF f # "ok" THEN f
  ELSE IF s.v # sn.pin.v THEN "VersionMismatch:targets"                    \* 4.1
  ELSE IF ~Verifies(s.signers, Range(r.tg), r.tgthr) THEN "Verify:targets" \* 4.2
  ELSE IF Counts(st.tg, r.tg, r.tgthr) /\ st.tg.v > s.v THEN "Older:targets"    \* 4.3
  ELSE "ok"

\* Datastore::system_time followed by check_expired: the sample is refused when the clock is
\* behind the recorded time, otherwise recorded; only then is expiry judged.
TimeCheck(d, who) ==
  IF ~enforce THEN "ok"
  ELSE IF known # -1 /\ now < known THEN "SystemTimeSteppedBackward"
  ELSE IF Expired(d, now) THEN who ELSE "ok"
KnownAfter(tc) == IF enforce /\ tc # "SystemTimeSteppedBackward" THEN now ELSE known

-----------------------------------------------------------------------------
Init ==
  /\ pc = "idle" /\ cyc = 0
  /\ shipped = NoDoc /\ root = NoDoc /\ cur = NoCur
  /\ store = NoCur /\ known = -1
  /\ now \in Times /\ enforce = TRUE
  /\ reqs = <<>> /\ res = "none" /\ succ = <<>> /\ maxRoot = 0 /\ stale = 0
  /\ walk = <<>> /\ reord = 0 /\ nread = 0
  /\ last = [ev |-> "none", s |-> NoDoc] /\ chain = Chain0
  /\ hist = <<>>

Fail(r) == /\ pc' = "idle" /\ res' = r

\* 0. load the shipped root, which must verify under its own keys
StartWith(sh, enf) ==
  /\ pc \in {"idle", "loaded"}
  /\ cyc' = cyc + 1 /\ shipped' = sh /\ enforce' = enf /\ reqs' = <<>> /\ cur' = NoCur
  /\ stale' = IF sh.v < maxRoot THEN stale + 1 ELSE stale
  /\ last' = [ev |-> "start", s |-> NoDoc]
  /\ walk' = <<sh>> /\ nread' = 0 /\ UNCHANGED reord
  /\ IF Verifies(sh.signers, sh.rk, sh.rthr)
     THEN /\ root' = sh /\ pc' = "root" /\ res' = "running"
          /\ maxRoot' = IF sh.v > maxRoot THEN sh.v ELSE maxRoot
     ELSE /\ root' = NoDoc /\ Fail("VerifyTrustedMetadata") /\ UNCHANGED maxRoot
  /\ hist' = Append(hist, [ev |-> "start", shipped |-> sh, enforce |-> enf, now |-> now])
  /\ UNCHANGED <<store, known, now, succ, chain>>
StartCycle == cyc < MaxCycles /\ \E sh \in Shipped, enf \in EnforceChoices :
                                    ShipRule(sh, maxRoot) /\ StartWith(sh, enf)

\* 1.1 - 1.7: one iteration of the root update loop.  The iteration that ends the walk goes on
\* to 1.8 (expiry of the final root only) and 1.9 (delete the stored timestamp and snapshot when
\* the ORDERED key lists of timestamp or snapshot differ between the SHIPPED root and the final
\* root -- thresholds are not compared).
RootMaxed == root.v >= shipped.v + MaxRootUpdates
RootFail ==          \* the `ensure!` at the top of the loop: no request is made
  /\ pc = "root" /\ RootMaxed
  /\ Fail("MaxUpdatesExceeded")
  /\ last' = [ev |-> "rootmax", s |-> NoDoc]
  /\ hist' = Append(hist, [ev |-> "rootmax"])
  /\ UNCHANGED <<cyc, shipped, root, cur, store, known, now, enforce, reqs, succ, maxRoot, stale, walk, reord, nread, chain>>
RootRes(s) ==
  LET o == RootOutcome(root, s) IN
  IF o = "stop" THEN LET tc == TimeCheck(root, "Expired:root") IN IF tc = "ok" THEN "stop" ELSE tc
  ELSE o
RootStepWith(s) ==
  /\ pc = "root" /\ ~RootMaxed
  /\ LET o   == RootOutcome(root, s)
         tc  == TimeCheck(root, "Expired:root")
         rot == shipped.ts # root.ts \/ shipped.sn # root.sn
     IN
     /\ reqs' = Append(reqs, <<"root", root.v + 1>>)
     /\ last' = [ev |-> "root", s |-> s]
     /\ hist' = Append(hist, [ev |-> "root", req |-> <<"root", root.v + 1>>, s |-> s, o |-> RootRes(s), now |-> now])
     /\ CASE o = "adopt" -> /\ root' = s /\ UNCHANGED <<pc, res, store, known, reord>>
                            /\ walk' = Append(walk, s)
                            /\ maxRoot' = IF s.v > maxRoot THEN s.v ELSE maxRoot
          [] o = "stop"  -> /\ known' = KnownAfter(tc)
                            /\ IF tc = "ok"
                               THEN /\ pc' = "ts" /\ UNCHANGED res
                                    /\ store' = IF rot THEN [store EXCEPT !.ts = NoDoc, !.sn = NoDoc]
                                                ELSE store
                                    /\ reord' = IF rot /\ KeySet(shipped, "ts") = KeySet(root, "ts")
                                                      /\ KeySet(shipped, "sn") = KeySet(root, "sn")
                                                 THEN reord + 1 ELSE reord
                               ELSE /\ Fail(tc) /\ UNCHANGED <<store, reord>>
                            /\ UNCHANGED <<root, maxRoot, walk>>
          [] OTHER       -> /\ Fail(o) /\ UNCHANGED <<root, maxRoot, store, known, walk, reord>>
  /\ UNCHANGED <<cyc, shipped, cur, now, enforce, succ, stale, nread, chain>>
RootStep == pc = "root" /\ ~RootMaxed /\ \E s \in CandRoot(root.v + 1, root) : RootStepWith(s)

\* 2. timestamp
TsRes(s) == LET o == TsOutcome(root, s, store) IN
            IF o = "ok" THEN TimeCheck(s, "Expired:timestamp") ELSE o
TsStepWith(s) ==
  /\ pc = "ts"
  /\ LET o == TsOutcome(root, s, store)
         tc == TsRes(s)
     IN /\ reqs' = Append(reqs, <<"ts", 0>>)
        /\ last' = [ev |-> "ts", s |-> s]
        /\ hist' = Append(hist, [ev |-> "ts", req |-> <<"ts", 0>>, s |-> s, o |-> tc, now |-> now])
        /\ known' = IF o = "ok" THEN KnownAfter(tc) ELSE known
        /\ IF tc = "ok"
           THEN /\ store' = [store EXCEPT !.ts = s] /\ cur' = [cur EXCEPT !.ts = s]
                /\ pc' = "sn" /\ UNCHANGED res
           ELSE /\ Fail(tc) /\ UNCHANGED <<store, cur>>
  /\ UNCHANGED <<cyc, shipped, root, now, enforce, succ, maxRoot, stale, walk, reord, nread, chain>>
TsStep == pc = "ts" /\ \E s \in CandTs(root) : TsStepWith(s)

\* 3. snapshot: named and bounded by what the trusted timestamp lists.  When the timestamp
\* does not list snapshot.json the cycle fails without a request.
SnReq == <<"sn", IF root.cons THEN cur.ts.pin.v ELSE 0>>
SnMissing ==
  /\ pc = "sn" /\ cur.ts.pin.v = 0
  /\ Fail("MetaMissing")
  /\ last' = [ev |-> "snmissing", s |-> NoDoc]
  /\ hist' = Append(hist, [ev |-> "snmissing"])
  /\ UNCHANGED <<cyc, shipped, root, cur, store, known, now, enforce, reqs, succ, maxRoot, stale, walk, reord, nread, chain>>
SnRes(s) == LET o == SnOutcome(root, cur.ts, s, store) IN
            IF o = "ok" THEN TimeCheck(s, "Expired:snapshot") ELSE o
SnStepWith(s) ==
  /\ pc = "sn" /\ cur.ts.pin.v # 0
  /\ LET o == SnOutcome(root, cur.ts, s, store)
         tc == SnRes(s)
     IN /\ reqs' = Append(reqs, SnReq)
        /\ last' = [ev |-> "sn", s |-> s]
        /\ hist' = Append(hist, [ev |-> "sn", req |-> SnReq, s |-> s, o |-> tc, now |-> now])
        /\ known' = IF o = "ok" THEN KnownAfter(tc) ELSE known
        /\ IF tc = "ok"
           THEN /\ store' = [store EXCEPT !.sn = s] /\ cur' = [cur EXCEPT !.sn = s]
                /\ pc' = "tg" /\ UNCHANGED res
           ELSE /\ Fail(tc) /\ UNCHANGED <<store, cur>>
  /\ UNCHANGED <<cyc, shipped, root, now, enforce, succ, maxRoot, stale, walk, reord, nread, chain>>
SnStep == pc = "sn" /\ cur.ts.pin.v # 0 /\ \E s \in CandSn(root, cur.ts) : SnStepWith(s)

\* 4. top-level targets: named and bounded by what the trusted snapshot lists
ExpRole(r, ts, sn, tg) ==     \* lib.rs: min_by_key over [root, timestamp, snapshot, targets]
  LET m == Min(Min(r.exp, ts.exp), Min(sn.exp, tg.exp)) IN
  IF r.exp = m THEN "root" ELSE IF ts.exp = m THEN "timestamp"
  ELSE IF sn.exp = m THEN "snapshot" ELSE "targets"
Summary(tg) == [root |-> root.v, shipped |-> shipped.v, stale |-> stale, reord |-> reord, cyc |-> cyc,
                ts |-> cur.ts.v, sn |-> cur.sn.v, tg |-> tg.v, ltg |-> cur.sn.pin.v,
                enforce |-> enforce,
                exp |-> Min(Min(root.exp, cur.ts.exp), Min(cur.sn.exp, tg.exp)),
                expRole |-> ExpRole(root, cur.ts, cur.sn, tg)]
TgReq == <<"tg", IF root.cons THEN cur.sn.pin.v ELSE 0>>
TgMissing ==
  /\ pc = "tg" /\ cur.sn.pin.v = 0
  /\ Fail("MetaMissing")
  /\ last' = [ev |-> "tgmissing", s |-> NoDoc]
  /\ hist' = Append(hist, [ev |-> "tgmissing"])
  /\ UNCHANGED <<cyc, shipped, root, cur, store, known, now, enforce, reqs, succ, maxRoot, stale, walk, reord, nread, chain>>
TgRes(s) == LET o == TgOutcome(root, cur.sn, s, store) IN
            IF o = "ok" THEN TimeCheck(s, "Expired:targets") ELSE o
TgStepWith(s) ==
  /\ pc = "tg" /\ cur.sn.pin.v # 0
  /\ LET o == TgOutcome(root, cur.sn, s, store)
         tc == TgRes(s)
     IN /\ reqs' = Append(reqs, TgReq)
        /\ last' = [ev |-> "tg", s |-> s]
        /\ hist' = Append(hist, [ev |-> "tg", req |-> TgReq, s |-> s, o |-> tc, now |-> now])
        /\ known' = IF o = "ok" THEN KnownAfter(tc) ELSE known
        /\ IF tc = "ok"
           THEN /\ store' = [store EXCEPT !.tg = s] /\ cur' = [cur EXCEPT !.tg = s]
                /\ pc' = "loaded" /\ res' = "ok"
                /\ succ' = Append(succ, Summary(s))
           ELSE /\ Fail(tc) /\ UNCHANGED <<store, cur, succ>>
  /\ UNCHANGED <<cyc, shipped, root, now, enforce, maxRoot, stale, walk, reord, nread, chain>>
TgStep == pc = "tg" /\ cur.sn.pin.v # 0 /\ \E s \in CandTg(root, cur.sn) : TgStepWith(s)

\* Repository::read_target / save_target on the loaded repository: re-checks the earliest
\* expiry (strictly: now < earliest) through the guarded clock
ReadRes ==
  LET e == succ[Len(succ)] IN
  IF ~enforce THEN "read-ok"
  ELSE IF known # -1 /\ now < known THEN "SystemTimeSteppedBackward"
  ELSE IF now > e.exp THEN "Expired:" \o e.expRole ELSE "read-ok"
ReadTarget ==
  /\ Reads /\ pc = "loaded" /\ last.ev # "read" /\ nread < MaxReads
  /\ nread' = nread + 1
  /\ res' = ReadRes
  /\ known' = IF enforce /\ ReadRes # "SystemTimeSteppedBackward" THEN now ELSE known
  /\ last' = [ev |-> "read", s |-> NoDoc]
  /\ hist' = Append(hist, [ev |-> "read", o |-> ReadRes, now |-> now])
  /\ UNCHANGED <<pc, cyc, shipped, root, cur, store, now, enforce, reqs, succ, maxRoot, stale, walk, reord, chain>>

\* environment: the clock jumps (forwards or backwards) between two phases or operations
ClockTo(t) ==
  /\ now' = t
  /\ hist' = Append(hist, [ev |-> "clock", now |-> t])
  /\ last' = [ev |-> "clock", s |-> NoDoc]
  /\ UNCHANGED <<pc, cyc, shipped, root, cur, store, known, enforce, reqs, res, succ, maxRoot, stale, walk, reord, nread, chain>>
ClockJump == ClockMoves /\ last.ev # "clock" /\ pc # "idle" /\ \E t \in Times \ {now} : ClockTo(t)

Next == StartCycle \/ RootFail \/ RootStep \/ TsStep \/ SnMissing \/ SnStep \/ TgMissing \/ TgStep
        \/ ReadTarget \/ ClockJump
Spec == Init /\ [][Next]_vars

-----------------------------------------------------------------------------
\* Properties.  They talk about the observable history `succ`, the requests and the results.


\* C02 -------------------------------------------------------------------
\* the final root is never older than the shipped one, requests for roots are consecutive
\* starting right after the shipped version and stop at the first one not adopted
RootReqs == SelectSeq(reqs, LAMBDA q : q[1] = "root")
RootReqsConsecutive ==
  \A i \in DOMAIN RootReqs : RootReqs[i][2] > shipped.v /\ (i > 1 => RootReqs[i][2] > RootReqs[i-1][2])
NeverBelowShipped == pc \notin {"idle"} /\ IsDoc(root) => root.v >= shipped.v
RootRequestsBounded == Len(RootReqs) <= MaxRootUpdates
\* everything trusted in this cycle verifies under the root trusted in this cycle
TrustedVerified ==
  /\ IsDoc(cur.ts) => Verifies(cur.ts.signers, Range(root.ts), root.tsthr)
  /\ IsDoc(cur.sn) => Verifies(cur.sn.signers, Range(root.sn), root.snthr)
  /\ IsDoc(cur.tg) => Verifies(cur.tg.signers, Range(root.tg), root.tgthr)
  /\ pc # "idle" /\ IsDoc(root) => Verifies(root.signers, root.rk, root.rthr)

\* C05 -------------------------------------------------------------------
PinsMatch ==
  /\ IsDoc(cur.sn) => /\ cur.sn.v = cur.ts.pin.v
                      /\ cur.ts.pin.h # NoDoc => FileHash(cur.sn) = cur.ts.pin.h
                      /\ cur.ts.pin.len # 0 => cur.sn.len <= cur.ts.pin.len
  /\ IsDoc(cur.tg) => /\ cur.tg.v = cur.sn.pin.v
                      /\ cur.sn.pin.h # NoDoc => FileHash(cur.tg) = cur.sn.pin.h
                      /\ cur.sn.pin.len # 0 => cur.tg.len <= cur.sn.pin.len
ConsistentNames ==
  \A i \in DOMAIN reqs :
     /\ reqs[i][1] = "sn" => reqs[i][2] = (IF root.cons THEN cur.ts.pin.v ELSE 0)
     /\ reqs[i][1] = "tg" => reqs[i][2] = (IF root.cons THEN cur.sn.pin.v ELSE 0)

\* C09 (cycle level) -----------------------------------------------------
RequestsBounded == Len(reqs) <= MaxRootUpdates + 3
SizesBounded ==
  /\ IsDoc(cur.ts) => cur.ts.len <= Limit.ts
  /\ IsDoc(cur.sn) => cur.sn.len <= SnBound(cur.ts)
  /\ IsDoc(cur.tg) => cur.tg.len <= TgBound(cur.sn)
  /\ pc # "idle" /\ IsDoc(root) /\ root # shipped => root.len <= Limit.root

\* C04 -------------------------------------------------------------------
\* a successful enforcing cycle trusted nothing that was expired at its sample.  Samples are
\* taken in phase order and `known` never decreases while enforcing, so it is enough that no
\* trusted document expires before the recorded time of its own check; the model records that
\* as: at the moment a phase succeeds, the document is not expired `now`.
\* (Checked as an action property in the phase actions: tc = "ok" /\ enforce => ~Expired.)
NoExpiredTrustedAtEnd ==
  pc = "loaded" /\ enforce /\ res = "ok" => ~Expired(cur.tg, now)
UnsafeNeverFailsForTime ==
  ~enforce => res \notin {"Expired:root", "Expired:timestamp", "Expired:snapshot",
                          "Expired:targets", "SystemTimeSteppedBackward"}
ReadAfterExpiryFails ==
  pc = "loaded" /\ enforce /\ res = "read-ok" /\ last.ev = "read" => now <= succ[Len(succ)].exp

\* C03 / C14 -------------------------------------------------------------
\* some root hop k-1 -> k with ri < k <= rj changed (key set, threshold) of `role`
Changed(role, ri, rj) ==
  \E k \in (ri + 1)..rj : k \in DOMAIN chain /\ (k - 1) \in DOMAIN chain
                          /\ KeySet(chain[k], role) # KeySet(chain[k - 1], role)
Exempt(role, i, j) ==
  IF role \in {"ts", "sn", "ltg"}
  THEN Changed("ts", succ[i].root, succ[j].root) \/ Changed("sn", succ[i].root, succ[j].root)
  ELSE Changed("tg", succ[i].root, succ[j].root)
Lower(i, j) == {r \in {"ts", "sn", "tg", "ltg"} : succ[j][r] < succ[i][r]}
RollbackSafe == \A i, j \in DOMAIN succ : i < j => \A r \in Lower(i, j) : Exempt(r, i, j)

\* Known finding F2 (DESIGN.md section 6): the trusted root is not persisted.
KF_StaleShippedRoot(i, j) == succ[j].stale > succ[i].stale
KF_KeyOrderOnly(i, j)     == succ[j].reord > succ[i].reord
RollbackSafeModKF ==
  \A i, j \in DOMAIN succ : i < j =>
     \A r \in Lower(i, j) : Exempt(r, i, j) \/ KF_StaleShippedRoot(i, j) \/ KF_KeyOrderOnly(i, j)
RollbackSafeModStale ==
  \A i, j \in DOMAIN succ : i < j =>
     \A r \in Lower(i, j) : Exempt(r, i, j) \/ KF_StaleShippedRoot(i, j)
RollbackSafeModOrder ==
  \A i, j \in DOMAIN succ : i < j =>
     \A r \in Lower(i, j) : Exempt(r, i, j) \/ KF_KeyOrderOnly(i, j)

\* C02: the walk is an unbroken, doubly signed, strictly increasing chain from the shipped root
WalkDoublySigned ==
  \A i \in DOMAIN walk : i > 1 =>
     /\ Verifies(walk[i].signers, walk[i-1].rk, walk[i-1].rthr)
     /\ Verifies(walk[i].signers, walk[i].rk, walk[i].rthr)
     /\ walk[i].v > walk[i-1].v
WalkEndsAtRoot == pc \notin {"idle"} /\ IsDoc(root) => root = walk[Len(walk)] /\ walk[1] = shipped

\* C03, second sentence: a repository that moves forward is never refused for rollback reasons:
\* whenever a cycle ends with an Older:* error, the served document really was older than a
\* stored one that verifies under the final root.
NoLockout ==
  res \in {"Older:timestamp", "Older:snapshot", "Older:targets"} /\ pc = "idle" =>
       \/ last.ev = "ts" /\ Counts(store.ts, root.ts, root.tsthr) /\ store.ts.v > last.s.v
       \/ last.ev = "sn" /\ Counts(store.sn, root.sn, root.snthr)
                         /\ (store.sn.v > last.s.v \/ store.sn.pin.v > last.s.pin.v)
       \/ last.ev = "tg" /\ Counts(store.tg, root.tg, root.tgthr) /\ store.tg.v > last.s.v

\* C14: after a net change of the timestamp or snapshot keys (as sets) between the root of the
\* previous successful cycle and the final root of this cycle, for a client that starts the cycle
\* from the root it trusted last (anything else is finding F2: the trusted root is not persisted,
\* the code compares against the SHIPPED root), stored timestamp/snapshot no longer constrain:
\* the cycle never ends with Older:timestamp / Older:snapshot / Older:targets-in-snapshot.
NetChanged(ri, rj) == /\ ri \in DOMAIN chain /\ rj \in DOMAIN chain
                      /\ \/ Range(chain[ri].ts) # Range(chain[rj].ts)
                         \/ Range(chain[ri].sn) # Range(chain[rj].sn)
C14Applies ==
  /\ Len(succ) > 0 /\ pc = "idle" /\ IsDoc(root)
  /\ succ[Len(succ)].cyc = cyc - 1
  /\ root.v > succ[Len(succ)].root /\ NetChanged(succ[Len(succ)].root, root.v)
  /\ last.ev \in {"ts", "sn"}
C14Clean == shipped.v = succ[Len(succ)].root /\ stale = succ[Len(succ)].stale
C14Recovers == res \notin {"Older:timestamp", "Older:snapshot", "Older:targets", "MetaMissing"}
RecoversAfterRotation == C14Applies /\ C14Clean => C14Recovers
RecoversAfterRotationAny == C14Applies => C14Recovers      \* without the F2 precondition

HistBound(n) == Len(hist) <= n

\* replay generation: one JSON line per finished behaviour (hist is part of the state there)
Done == /\ cyc = MaxCycles
        /\ \/ pc = "idle"
           \/ pc = "loaded" /\ (~Reads \/ nread = MaxReads)
Emit == Done => PrintT(<<"REPLAY", ToJson([chain |-> chain, hist |-> hist,
                  limits |-> [root |-> Limit.root, ts |-> Limit.ts, sn |-> Limit.sn, tg |-> Limit.tg,
                              updates |-> MaxRootUpdates]])>>)
=============================================================================
