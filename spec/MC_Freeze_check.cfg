SPECIFICATION Spec
CONSTANTS
  Exps = {0, 5}
  Replay = FALSE
  MaxCycles = 1
  MaxRootUpdates = 4
  Times = {0, 1, 2}
  ClockMoves = TRUE
  EnforceChoices = {TRUE, FALSE}
  Reads = TRUE
  MaxReads = 2
  Shipped <- MC_Shipped
  ShipRule <- MC_ShipRule
  CandRoot <- MC_CandRoot
  CandTs <- MC_CandTs
  CandSn <- MC_CandSn
  CandTg <- MC_CandTg
  Limit <- MC_Limit
  Chain0 <- NoChain
VIEW view
INVARIANTS UnsafeNeverFailsForTime ReadAfterExpiryFails TargetsFreshAtEnd NeverExpiredWrongly ClockBackFails TrustedVerified WalkDoublySigned
CHECK_DEADLOCK FALSE
