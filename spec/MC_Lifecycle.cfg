SPECIFICATION Spec
CONSTANTS
  NameSeq <- MC_NameSeq
  MaxVer = 2
  MaxContent = 2
  MaxSteps = 3
  Rotations = {"same", "online"}
  Foreign = TRUE
  Plans <- MC_AnyPlan
  Expiry = TRUE
VIEW view
INVARIANTS TypeOK ExpiredNeverTrusted ToolsRefuseExpired RefreshSeesPublished MonotonePublisherServes RefusalMeansRollback CloneFaithful CloneNeverWrong DownloadFaithful PublishedComplete
PROPERTIES UpdateKeeps TransferKeeps ClientMonotone
CHECK_DEADLOCK FALSE
