SPECIFICATION Spec
CONSTANTS
  NameSeq <- MC_NameSeq
  MaxVer = 2
  MaxContent = 2
  MaxSteps = 4
  Rotations = {"same", "online"}
  Foreign = TRUE
  Plans <- MC_AnyPlan
VIEW view
INVARIANTS TypeOK RefreshSeesPublished MonotonePublisherServes RefusalMeansRollback CloneFaithful CloneNeverWrong DownloadFaithful PublishedComplete
PROPERTIES UpdateKeeps TransferKeeps ClientMonotone
CHECK_DEADLOCK FALSE
