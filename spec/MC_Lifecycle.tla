---------------------------- MODULE MC_Lifecycle ----------------------------
EXTENDS Lifecycle
MC_NameSeq == <<"a", "b">>
\* generation: every plan that creates the repository and then runs MaxSteps - 1 commands of any kind
MC_AnyPlan == {<<>>}
MC_GenPlans == {<<"create">> \o q : q \in [1..(MaxSteps - 1) -> Kinds \ {"create"}]}
               \cup {<<"create", "foreign">> \o q : q \in [1..(MaxSteps - 2) -> Kinds \ {"create", "foreign"}]}
\* rotation family: versions are stored, the repository moves to root 2, the client comes back (shipping root 1 or
\* the newest root), the repository moves on
RotBase == <<"create", "update", "refresh", "transfer", "refresh", "update", "refresh", "refresh">>
MC_RotPlans == {SubSeq(RotBase, 1, MaxSteps)} \cup {<<"create", "refresh", "transfer", "refresh">> \o q : q \in [1..(MaxSteps - 4) -> {"update", "refresh"}]}
MC_NameSeq3 == <<"a", "b", "c">>
=============================================================================
