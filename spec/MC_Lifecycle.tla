---------------------------- MODULE MC_Lifecycle ----------------------------
EXTENDS Lifecycle
MC_NameSeq == <<"a", "b">>
\* generation: every plan that creates the repository and then runs MaxSteps - 1 commands of any kind
MC_AnyPlan == {<<>>}
MC_GenPlans == {<<"create">> \o q : q \in [1..(MaxSteps - 1) -> Kinds \ {"create"}]}
               \cup {<<"create", "foreign">> \o q : q \in [1..(MaxSteps - 2) -> Kinds \ {"create", "foreign"}]}
MC_NameSeq3 == <<"a", "b", "c">>
=============================================================================
