------------------------- MODULE MC_TufStoreConc -------------------------
EXTENDS TufStoreConc
\* A newer than B, B newer than A, equal, A served a replayed older repository, A served the stored one
MCPairs == {<<3, 4>>, <<4, 3>>, <<3, 3>>, <<1, 3>>, <<2, 3>>}
==========================================================================
