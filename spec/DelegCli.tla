------------------------------ MODULE DelegCli ------------------------------
(***************************************************************************)
(* The delegation workflow of tuftool as a protocol between the repository *)
(* owner and the holders of delegated roles, who exchange metadata through *)
(* staging directories:                                                    *)
(*                                                                         *)
(*   holder:  delegation --signing-role R create-role                      *)
(*            delegation --signing-role R update-delegated-targets         *)
(*            delegation --signing-role A add-role --delegated-role B      *)
(*   owner:   delegation --signing-role targets add-role A --sign-all      *)
(*            delegation --signing-role targets add-key / remove-key /     *)
(*                                              remove   (-> staged file)  *)
(*            update --role R --incoming-metadata <staging dir>            *)
(*                                                                         *)
(* (tuftool/src/{create_role,add_role,update_targets,add_key_role,         *)
(* remove_key_role,remove_role,update}.rs over tough/src/editor).  Roles:  *)
(* A, delegated by targets with paths a*; B, delegated by A with paths     *)
(* a2*.  Names a1, a2 match A; a2 matches B; b1 matches neither.           *)
(*                                                                         *)
(* State: the published repository (what a client loads), and one staging  *)
(* directory per role plus one for the owner's own targets.json.  A role   *)
(* file is abstracted to its version, the names it lists, the keys whose   *)
(* signature over it is valid, its own delegations key table, and for A    *)
(* the delegation to B it contains.                                        *)
(***************************************************************************)
EXTENDS Naturals, Sequences, FiniteSets, TLC, Json

CONSTANTS MaxSteps, MaxVer, Plans

KA == 1  KA2 == 2  KB == 3  KB2 == 4
Names == {"a1", "a2", "b1"}
MatchA == {"a1", "a2"}            \* paths a*
MatchB == {"a2"}                  \* paths a2* (and below A: a*)

NoFile == [on |-> FALSE]
NoSub  == [on |-> FALSE]
\* a role file: version, listed names, valid signers, own key table, delegation to B (A only)
\*   and, in a staging directory, the copy of B.json lying next to A.json (add-role output)
File(v, ns, sg, tb, sub, bf) == [on |-> TRUE, ver |-> v, names |-> ns, signers |-> sg, table |-> tb, sub |-> sub, bfile |-> bf]
\* what the parent says about a delegated role
NoDel == [on |-> FALSE]
Del(ks, thr) == [on |-> TRUE, keys |-> ks, thr |-> thr]

VARIABLES
  pub,    \* [ver : [ts, sn, tg], dA : delegation of A in targets.json, A : file, B : file]
  st,     \* [A : file, B : file, T : staged targets.json = [on, ver, dA]]
  rk,     \* the owner has published something the commands do not check: a targets.json that takes a
          \* key away from A (remove-key), or a delegation to A whose threshold A's file does not
          \* meet (add-role reads keys and signatures from the holder's file without verifying them)
  last, n, hist, plan
vars == <<pub, st, rk, last, n, hist, plan>>
view == <<pub, st, rk, last, n, plan>>

Kinds == {"create", "owneradd", "owneraddstaged", "update", "incorporate", "delegadd", "addkey", "removekey", "removerole",
          "haddkey", "hremovekey", "hremoverole"}
Can(kind) == n < MaxSteps /\ (plan = <<>> \/ (n < Len(plan) /\ plan[n + 1] = kind))

Init ==
  /\ pub = [ver |-> [ts |-> 1, sn |-> 1, tg |-> 1], dA |-> NoDel, A |-> NoFile, B |-> NoFile]
  /\ st = [A |-> NoFile, B |-> NoFile, T |-> [on |-> FALSE]]     \* T: [on, ver, dA, afile]
  /\ rk = FALSE
  /\ last = [act |-> "none", ok |-> TRUE, err |-> ""] /\ n = 0 /\ hist = <<>>
  /\ plan \in Plans

\* the delegation of B as the published A file states it
DB(p) == IF p.A.on THEN p.A.sub ELSE NoDel
\* what a client accepts: every delegated role carries a threshold of valid signatures by the
\* keys its parent lists, and lists only names its chain of paths matches
RoleOk(f, d, match) == f.on => /\ d.on /\ Cardinality(f.signers \cap d.keys) >= d.thr
                               /\ f.names \subseteq match
Loads(p) == /\ (p.dA.on <=> p.A.on)
            /\ RoleOk(p.A, p.dA, MatchA)
            /\ (DB(p).on <=> p.B.on)
            /\ RoleOk(p.B, DB(p), MatchB)
View(p) == [ver |-> p.ver, A |-> IF p.A.on THEN [ver |-> p.A.ver, names |-> p.A.names, keys |-> p.dA.keys, thr |-> p.dA.thr] ELSE [ver |-> 0, names |-> {}, keys |-> {}, thr |-> 0],
            B |-> IF p.B.on THEN [ver |-> p.B.ver, names |-> p.B.names, keys |-> DB(p).keys, thr |-> DB(p).thr] ELSE [ver |-> 0, names |-> {}, keys |-> {}, thr |-> 0]]

Step(cmd, ok, err, p, s) ==
  LET nrk == \/ rk
             \/ (pub.dA.on /\ p.dA.on /\ ~(pub.dA.keys \subseteq p.dA.keys))
             \/ (DB(pub).on /\ DB(p).on /\ ~(DB(pub).keys \subseteq DB(p).keys))
             \/ (cmd.act = "owneradd" /\ ok /\ Cardinality(p.A.signers \cap p.dA.keys) < p.dA.thr)
  IN
  /\ last' = [act |-> cmd.act, ok |-> ok, err |-> err]
  /\ n' = n + 1
  /\ hist' = Append(hist, [cmd |-> cmd, ok |-> ok, err |-> err, loads |-> Loads(p), view |-> View(p), unchecked |-> nrk,
                           staged |-> [A |-> s.A.on, B |-> s.B.on, T |-> s.T.on]])
  /\ pub' = p /\ st' = s /\ UNCHANGED plan
  /\ rk' = nrk

Bump(v) == [ts |-> v.ts + 1, sn |-> v.sn + 1, tg |-> v.tg + 1]

-----------------------------------------------------------------------------
\* holder: create-role -- a fresh, empty role file signed with the given keys, which it also
\* lists in its own key table (that table is what add-role reads the role's keys from)
CreateRole(r, K, v) ==
  /\ Can("create")
  /\ Step([act |-> "create", role |-> r, keys |-> K, ver |-> v], TRUE, "",
          pub, [st EXCEPT ![r] = File(v, {}, K, K, NoSub, NoFile)])

\* owner: add-role --sign-all -- targets.json delegates paths a* to A with the keys of the staged
\* file's own table; A.json is published as it is; everything is signed and written
OwnerAddRole(thr) ==
  /\ Can("owneradd") /\ ~pub.dA.on
  /\ IF ~st.A.on THEN Step([act |-> "owneradd", thr |-> thr], FALSE, IF Loads(pub) THEN "Transport" ELSE "RepoLoad", pub, st)
     ELSE
     LET f == st.A
         c == [act |-> "owneradd", thr |-> thr]
         p == [pub EXCEPT !.ver = Bump(pub.ver), !.dA = Del(f.table, thr), !.A = [f EXCEPT !.bfile = NoFile],
                          !.B = IF f.sub.on /\ f.bfile.on THEN f.bfile ELSE NoFile]
     IN IF thr > Cardinality(f.table) THEN Step(c, FALSE, "InvalidThreshold", pub, st)
        ELSE IF f.sub.on /\ ~f.bfile.on THEN Step(c, FALSE, "MissingRole", pub, st)
        ELSE IF ~(f.names \subseteq MatchA) THEN Step(c, FALSE, "TargetNotDelegated", pub, st)
        ELSE Step(c, TRUE, "", p, st)

\* holder: update-delegated-targets -- loads the published repository, adds targets to role r,
\* sets the version, signs with the offered keys that r's parent lists (threshold required)
UpdateTargets(r, K, add, v) ==
  /\ Can("update")
  /\ IF ~pub[r].on
     THEN Step([act |-> "update", role |-> r, keys |-> K, add |-> add, ver |-> v], FALSE,
               IF Loads(pub) THEN "NoSuchRole" ELSE "RepoLoad", pub, st)
     ELSE
     LET d   == IF r = "A" THEN pub.dA ELSE DB(pub)
         sg  == K \cap d.keys
         c   == [act |-> "update", role |-> r, keys |-> K, add |-> add, ver |-> v]
         f   == File(v, pub[r].names \cup add, sg, pub[r].table, pub[r].sub, NoFile)
     IN IF ~Loads(pub) THEN Step(c, FALSE, "RepoLoad", pub, st)
        ELSE IF Cardinality(sg) < d.thr THEN Step(c, FALSE, "SigningKeysNotFound", pub, st)
        ELSE Step(c, TRUE, "", pub, [st EXCEPT ![r] = f])

\* holder of A: add-role --delegated-role B -- A.json gets a delegation of a2* to B with the keys of
\* B's staged table, a new version, A's signature; A.json and B.json land in A's staging directory
DelegAddRole(K, thr, v) ==
  /\ Can("delegadd") /\ ~DB(pub).on
  /\ IF ~pub.A.on \/ ~st.B.on
     THEN Step([act |-> "delegadd", keys |-> K, thr |-> thr, ver |-> v], FALSE,
               IF ~Loads(pub) THEN "RepoLoad" ELSE IF ~pub.A.on THEN "NoSuchRole" ELSE "Transport", pub, st)
     ELSE
     LET sg == K \cap pub.dA.keys
         c  == [act |-> "delegadd", keys |-> K, thr |-> thr, ver |-> v]
         f  == File(v, pub.A.names, sg, pub.A.table \cup st.B.table, Del(st.B.table, thr), [st.B EXCEPT !.bfile = NoFile])
     IN IF ~Loads(pub) THEN Step(c, FALSE, "RepoLoad", pub, st)
        ELSE IF thr > Cardinality(st.B.table) THEN Step(c, FALSE, "InvalidThreshold", pub, st)
        ELSE IF Cardinality(sg) < pub.dA.thr THEN Step(c, FALSE, "SigningKeysNotFound", pub, st)
        ELSE Step(c, TRUE, "", pub, [st EXCEPT !.A = f])

\* owner: add-role without --sign-all -- only targets.json (delegating a* to A) and a copy of A.json are
\* written, to the owner's staging directory; `update --role targets` publishes them later and, unlike
\* --sign-all, verifies A.json against the new delegation when it does
OwnerAddRoleStaged(thr, v) ==
  /\ Can("owneraddstaged") /\ st.A.on /\ ~pub.dA.on /\ ~st.A.sub.on
  /\ LET f == st.A
         c == [act |-> "owneraddstaged", thr |-> thr, ver |-> v]
     IN IF ~Loads(pub) THEN Step(c, FALSE, "RepoLoad", pub, st)
        ELSE IF thr > Cardinality(f.table) THEN Step(c, FALSE, "InvalidThreshold", pub, st)
        ELSE Step(c, TRUE, "", pub, [st EXCEPT !.T = [on |-> TRUE, ver |-> v, dA |-> Del(f.table, thr), afile |-> [f EXCEPT !.bfile = NoFile]]])

\* owner: add-key / remove-key / remove on the delegation of A -- a new targets.json in the owner's
\* staging directory (nothing is checked about thresholds)
OwnerKeyOp(op, k, v) ==
  /\ Can(op)
  /\ LET d == CASE ~pub.dA.on       -> NoDel       \* no such delegation: the commands change nothing and say nothing
                [] op = "addkey"    -> Del(pub.dA.keys \cup {k}, pub.dA.thr)
                [] op = "removekey" -> Del(pub.dA.keys \ {k}, pub.dA.thr)
                [] OTHER            -> NoDel
         c == [act |-> op, key |-> k, ver |-> v]
     IN IF ~Loads(pub) THEN Step(c, FALSE, "RepoLoad", pub, st)
        ELSE Step(c, TRUE, "", pub, [st EXCEPT !.T = [on |-> TRUE, ver |-> v, dA |-> d, afile |-> NoFile]])

\* holder of A: add-key / remove-key / remove on A's delegation of B -- a new A.json (signed by A's keys) in A's
\* staging directory; published later by `update --role A`, which carries B's file over unverified
HolderKeyOp(op, k, K, v) ==
  /\ Can(op)
  /\ IF ~pub.A.on
     THEN Step([act |-> op, key |-> k, keys |-> K, ver |-> v], FALSE, IF Loads(pub) THEN "NoSuchRole" ELSE "RepoLoad", pub, st)
     ELSE
     LET sg  == K \cap pub.dA.keys
         sub == CASE ~DB(pub).on       -> NoSub      \* no such delegation: nothing changes but version and signature
                  [] op = "haddkey"    -> Del(DB(pub).keys \cup {k}, DB(pub).thr)
                  [] op = "hremovekey" -> Del(DB(pub).keys \ {k}, DB(pub).thr)
                  [] OTHER             -> NoSub
         tb  == IF op = "haddkey" THEN pub.A.table \cup {k} ELSE pub.A.table
         c   == [act |-> op, key |-> k, keys |-> K, ver |-> v]
     IN IF ~Loads(pub) THEN Step(c, FALSE, "RepoLoad", pub, st)
        ELSE IF Cardinality(sg) < pub.dA.thr THEN Step(c, FALSE, "SigningKeysNotFound", pub, st)
        ELSE Step(c, TRUE, "", pub, [st EXCEPT !.A = File(v, pub.A.names, sg, tb, sub, NoFile)])

\* owner: update --role r --incoming-metadata <staging dir of r>
\* (RepositoryEditor::update_delegated_targets, then sign and write)
Incorporate(r) ==
  /\ (Can("incorporate") \/ Can("incorporate" \o r))      \* a plan may name the role
  /\ LET c  == [act |-> "incorporate", role |-> r]
         nv == Bump(pub.ver)
     IN
     IF ~Loads(pub) THEN Step(c, FALSE, "RepoLoad", pub, st)
     ELSE IF r = "T" THEN
        \* the owner's own targets.json: verified against the root (the owner signed it); its version must
        \* not be below the one `update` has just given the current targets (--targets-version)
        IF ~st.T.on THEN Step(c, FALSE, "Transport", pub, st)
        ELSE IF st.T.ver < nv.tg THEN Step(c, FALSE, "VersionMismatch", pub, st)
        ELSE LET newA == st.T.dA.on /\ ~pub.A.on       \* a role the repository does not have yet: fetched and verified
                 a    == IF ~st.T.dA.on THEN NoFile ELSE IF pub.A.on THEN pub.A ELSE st.T.afile
                 p    == [pub EXCEPT !.ver = [nv EXCEPT !.tg = st.T.ver], !.dA = st.T.dA, !.A = a,
                                     !.B = IF st.T.dA.on /\ pub.A.on THEN pub.B ELSE NoFile]
             IN IF newA /\ ~st.T.afile.on THEN Step(c, FALSE, "Transport", pub, st)
                ELSE IF newA /\ Cardinality(st.T.afile.signers \cap st.T.dA.keys) < st.T.dA.thr THEN Step(c, FALSE, "Verify", pub, st)
                ELSE IF a.on /\ ~(a.names \subseteq MatchA) THEN Step(c, FALSE, "TargetNotDelegated", pub, st)
                ELSE Step(c, TRUE, "", p, st)       \* roles the repository already has are carried over unverified
     ELSE
        LET d == IF r = "A" THEN pub.dA ELSE DB(pub)
            f == st[r]
        IN
        IF ~pub[r].on THEN Step(c, FALSE, "DelegateMissing", pub, st)
        ELSE IF ~f.on THEN Step(c, FALSE, "Transport", pub, st)
        ELSE IF Cardinality(f.signers \cap d.keys) < d.thr THEN Step(c, FALSE, "Verify", pub, st)
        ELSE IF f.ver < pub[r].ver THEN Step(c, FALSE, "VersionMismatch", pub, st)
        ELSE IF r = "B" THEN
             IF ~(f.names \subseteq MatchB) THEN Step(c, FALSE, "TargetNotDelegated", pub, st)
             ELSE Step(c, TRUE, "", [pub EXCEPT !.ver = nv, !.B = [f EXCEPT !.bfile = NoFile]], st)
        ELSE \* r = "A": roles it delegates and the repository already has are carried over, new ones
             \* are fetched from the same directory and verified against the incoming delegation
             LET newB == f.sub.on /\ ~pub.B.on
                 b    == IF ~f.sub.on THEN NoFile ELSE IF pub.B.on THEN pub.B ELSE f.bfile
             IN IF newB /\ ~f.bfile.on THEN Step(c, FALSE, "Transport", pub, st)
                ELSE IF newB /\ Cardinality(f.bfile.signers \cap f.sub.keys) < f.sub.thr THEN Step(c, FALSE, "Verify", pub, st)
                ELSE IF ~(f.names \subseteq MatchA) \/ (b.on /\ ~(b.names \subseteq MatchB))
                     THEN Step(c, FALSE, "TargetNotDelegated", pub, st)
                ELSE Step(c, TRUE, "", [pub EXCEPT !.ver = nv, !.A = [f EXCEPT !.bfile = NoFile], !.B = b], st)

CurVer(r) == IF pub[r].on THEN pub[r].ver ELSE 1
VerChoices(cur) == {x \in {1, cur, cur + 1} : x >= 1 /\ x <= MaxVer}
Next ==
  \/ \E K \in {{KA}, {KA, KA2}} : CreateRole("A", K, 1)
  \/ CreateRole("B", {KB}, 1)
  \/ \E thr \in 1..2 : OwnerAddRole(thr)
  \/ \E thr \in 1..2, v \in {pub.ver.tg, pub.ver.tg + 1} : OwnerAddRoleStaged(thr, v)
  \/ \E K \in {{KA}, {KA2}, {KA, KA2}}, add \in {{}, {"a1"}, {"a2"}, {"b1"}}, v \in VerChoices(CurVer("A")) : UpdateTargets("A", K, add, v)
  \/ \E K \in {{KB}, {KA}}, add \in {{"a1"}, {"a2"}}, v \in VerChoices(CurVer("B")) : UpdateTargets("B", K, add, v)
  \/ \E K \in {{KA}, {KA, KA2}}, thr \in 1..2 : DelegAddRole(K, thr, IF CurVer("A") < MaxVer THEN CurVer("A") + 1 ELSE MaxVer)
  \/ \E v \in {pub.ver.tg, pub.ver.tg + 1, pub.ver.tg + 2} : OwnerKeyOp("addkey", KA2, v) \/ OwnerKeyOp("removerole", 0, v)
                                              \/ \E k \in {KA, KA2} : OwnerKeyOp("removekey", k, v)
  \/ \E K \in {{KA}, {KA, KA2}}, v \in VerChoices(CurVer("A")) :
        HolderKeyOp("haddkey", KB2, K, v) \/ HolderKeyOp("hremoverole", 0, K, v)
        \/ \E k \in {KB, KB2} : HolderKeyOp("hremovekey", k, K, v)
  \/ \E r \in {"A", "B", "T"} : Incorporate(r)
Spec == Init /\ [][Next]_vars

-----------------------------------------------------------------------------
\* what the owner publishes always loads -- except after the two unchecked publications above: until
\* A's holder signs again the repository is refused by clients (recorded as observations in
\* DESIGN.md; no listed property covers remove-key or the first add-role of a holder's file)
PublishedLoads == Loads(pub) \/ rk
\* no role content reaches the published repository without a threshold of its parent's keys
\* at the time it is incorporated
IncorporatedMeansAuthorized ==
  [][last'.act = "incorporate" /\ last'.ok /\ n' = n + 1 =>
       LET r == hist'[Len(hist')].cmd.role IN
       r \in {"A", "B"} =>
          LET d == IF r = "A" THEN pub.dA ELSE DB(pub) IN
          /\ Cardinality(pub'[r].signers \cap d.keys) >= d.thr
          /\ pub'[r].ver >= pub[r].ver]_vars
\* a holder cannot put a name outside its paths into the published repository
PathsHold == (pub.A.on => pub.A.names \subseteq MatchA) /\ (pub.B.on => pub.B.names \subseteq MatchB)
\* role versions in the published repository never go back while the role stays delegated
RoleVersionsMonotone ==
  [][\A r \in {"A", "B"} : pub[r].on /\ pub'[r].on => pub'[r].ver >= pub[r].ver]_vars

Done == n = MaxSteps \/ (plan # <<>> /\ n = Len(plan))
Emit == Done => PrintT(<<"REPLAY", ToJson([steps |-> hist])>>)
=============================================================================
