----------------------------- MODULE Delegation -----------------------------
(***************************************************************************)
(* Delegated targets roles (properties C07 and the delegation part of C09, *)
(* C05).                                                                   *)
(*                                                                         *)
(* Mode "tree":  every delegation tree over the roles in Roles below the   *)
(*   top-level targets role; every set of names each edge matches; every   *)
(*   set of names each role lists (a role r lists a name with digest r, so *)
(*   the digest tells which role an entry came from).  The state is one    *)
(*   such repository.  Transcribed: Targets::find_target (AlgoFind),       *)
(*   Targets::validate (LoadOk), and the property's own definition of the  *)
(*   authorized entry (SpecFind).                                          *)
(*                                                                         *)
(* Mode "graph": every list of up to MaxEdges distinct delegation edges    *)
(*   over Roles, including self- and mutual delegation and shared roles;   *)
(*   transcribed: the traversal of load_delegations (requests it makes,    *)
(*   whether it terminates).  CycleCheck = TRUE models the refusal of a    *)
(*   role that is already on the current delegation path.                  *)
(***************************************************************************)
EXTENDS Naturals, Sequences, FiniteSets, TLC, Json

CONSTANTS Mode, Roles, Names, MaxEdges, CycleCheck, Fuel
Top == "targets"
AllRoles == Roles \cup {Top}

VARIABLES
  edges,   \* listed order: sequence of [from, to, m] (m: the names the edge's path set matches)
  lists    \* role -> set of names the role lists
vars == <<edges, lists>>

RoleSeq == CHOOSE s \in [1..Cardinality(Roles) -> Roles] : \A i, j \in DOMAIN s : i # j => s[i] # s[j]
\* children of a role, in listed order
Children(r) == SelectSeq(edges, LAMBDA e : e.from = r)

-----------------------------------------------------------------------------
\* Mode "tree": parent function, acyclic, every role used; siblings listed in RoleSeq order
RECURSIVE Reaches(_, _, _)
Reaches(par, r, fuel) == IF r = Top THEN TRUE ELSE IF fuel = 0 THEN FALSE ELSE Reaches(par, par[r], fuel - 1)
TreeEdges(par, mm) == LET S == SelectSeq(RoleSeq, LAMBDA r : TRUE) IN
                      [i \in DOMAIN S |-> [from |-> par[S[i]], to |-> S[i], m |-> mm[S[i]]]]
InitTree ==
  \E par \in [Roles -> AllRoles], mm \in [Roles -> SUBSET Names], ll \in [AllRoles -> SUBSET Names] :
     /\ \A r \in Roles : par[r] # r /\ Reaches(par, r, Cardinality(Roles) + 1)
     /\ edges = TreeEdges(par, mm)
     /\ lists = ll

\* Mode "graph": distinct edges, any endpoints
EdgeSet == {[from |-> f, to |-> t, m |-> Names] : f \in AllRoles, t \in Roles}
InitGraph ==
  /\ lists = [r \in AllRoles |-> {}]
  /\ \E n \in 0..MaxEdges : \E s \in [1..n -> EdgeSet] :
        /\ \A i, j \in 1..n : i # j => s[i] # s[j]
        /\ edges = s

\* Mode "layered": K layers of two roles each, every role of a layer delegating to both roles of the
\* next one (the top-level role to both roles of the first layer): roles shared by several paths
Layer(k) == <<"l" \o ToString(k) \o "x", "l" \o ToString(k) \o "y">>
LayerEdges(k) == IF k = 1 THEN <<[from |-> Top, to |-> Layer(1)[1], m |-> Names], [from |-> Top, to |-> Layer(1)[2], m |-> Names]>>
                 ELSE <<[from |-> Layer(k-1)[1], to |-> Layer(k)[1], m |-> Names], [from |-> Layer(k-1)[1], to |-> Layer(k)[2], m |-> Names],
                        [from |-> Layer(k-1)[2], to |-> Layer(k)[1], m |-> Names], [from |-> Layer(k-1)[2], to |-> Layer(k)[2], m |-> Names]>>
RECURSIVE Layers(_)
Layers(k) == IF k = 0 THEN <<>> ELSE Layers(k - 1) \o LayerEdges(k)
InitLayered == /\ \E k \in 1..MaxEdges : edges = Layers(k)
               /\ lists = [r \in AllRoles |-> {}]

Init == IF Mode = "tree" THEN InitTree ELSE IF Mode = "graph" THEN InitGraph ELSE InitLayered
Next == UNCHANGED vars
Spec == Init /\ [][Next]_vars

-----------------------------------------------------------------------------
\* tough/src/schema/mod.rs Targets::find_target: own entries, then the delegations in listed
\* order, skipping (with everything below) those whose paths do not match; first hit wins.
\* Result: the role whose entry is used, or "none".
RECURSIVE AlgoFind(_, _, _), AlgoFindIn(_, _, _, _)
AlgoFind(r, n, fuel) ==
  IF n \in lists[r] THEN r
  ELSE IF fuel = 0 THEN "none" ELSE AlgoFindIn(Children(r), 1, n, fuel - 1)
AlgoFindIn(ch, i, n, fuel) ==
  IF i > Len(ch) THEN "none"
  ELSE IF n \notin ch[i].m THEN AlgoFindIn(ch, i + 1, n, fuel)
  ELSE LET x == AlgoFind(ch[i].to, n, fuel) IN
       IF x # "none" THEN x ELSE AlgoFindIn(ch, i + 1, n, fuel)

\* The property: all (role, chain) pairs in pre-order -- a role's own entries before its
\* delegates, delegates in listed order -- of which the first one that lists the name and whose
\* whole chain of edges matches the name is the authorized entry.
RECURSIVE PreOrder(_, _, _)
\* sequence of [role, ok] : ok = every edge on the chain from Top matches n
PreOrder(r, n, fuel) ==
  <<r>> \o (IF fuel = 0 THEN <<>> ELSE
            LET ch == Children(r) IN
            LET F[i \in 0..Len(ch)] ==
                  IF i = 0 THEN <<>>
                  ELSE F[i - 1] \o (IF n \in ch[i].m THEN PreOrder(ch[i].to, n, fuel - 1) ELSE <<>>)
            IN F[Len(ch)])
SpecFind(n) ==
  LET p == PreOrder(Top, n, Fuel)
      hits == {i \in DOMAIN p : n \in lists[p[i]]}
  IN IF hits = {} THEN "none" ELSE p[CHOOSE i \in hits : \A j \in hits : i <= j]

\* Targets::validate: every name listed anywhere in the tree must be found
Listed == UNION {lists[r] : r \in AllRoles}
LoadOk == \A n \in Listed : AlgoFind(Top, n, Fuel) # "none"

\* C07
FindMeetsSpec == Mode = "tree" => \A n \in Names : AlgoFind(Top, n, Fuel) = SpecFind(n)
LoadedMeansAuthorized == Mode = "tree" /\ LoadOk => \A n \in Listed : SpecFind(n) # "none"

-----------------------------------------------------------------------------
\* load_delegations: for one role, fetch every delegated role in listed order, then recurse into
\* each in listed order.  Returns [ok, reqs]: whether the traversal completed and the sequence
\* of roles requested.  Fuel bounds the recursion of the model (a traversal that exhausts it does
\* not terminate in the code).
RECURSIVE Trav(_, _, _)
Trav(r, path, fuel) ==
  LET ch == Children(r) IN
  IF fuel = 0 THEN [ok |-> FALSE, reqs |-> <<>>, why |-> "unbounded"]
  ELSE
  LET \* first loop: fetch each child; a child already on the path is refused (CycleCheck)
      Fetch[i \in 0..Len(ch)] ==
        IF i = 0 THEN [ok |-> TRUE, reqs |-> <<>>, why |-> "ok"]
        ELSE LET p == Fetch[i - 1] IN
             IF ~p.ok THEN p
             ELSE IF CycleCheck /\ (ch[i].to \in path) THEN [ok |-> FALSE, reqs |-> p.reqs, why |-> "cycle"]
             ELSE [ok |-> TRUE, reqs |-> Append(p.reqs, ch[i].to), why |-> "ok"]
      f == Fetch[Len(ch)]
      \* second loop: recurse
      Rec[i \in 0..Len(ch)] ==
        IF i = 0 THEN f
        ELSE LET p == Rec[i - 1] IN
             IF ~p.ok THEN p
             ELSE LET q == Trav(ch[i].to, path \cup {ch[i].to}, fuel - 1) IN
                  [ok |-> q.ok, reqs |-> p.reqs \o q.reqs, why |-> q.why]
  IN Rec[Len(ch)]
Traversal == Trav(Top, {Top}, Fuel)

\* C09 (delegation part): the traversal terminates, and on graphs without shared roles it makes
\* at most one request per published delegation
HasCycle == \E r \in Roles : LET RECURSIVE Reach(_, _)
                                 Reach(S, k) == IF k = 0 THEN S
                                                ELSE Reach(S \cup {e.to : e \in {edges[i] : i \in {j \in DOMAIN edges : edges[j].from \in S}}}, k - 1)
                             IN r \in Reach({edges[i].to : i \in {j \in DOMAIN edges : edges[j].from = r}}, Cardinality(Roles))
Terminates == Mode # "tree" => Traversal.why # "unbounded"
RequestsBoundedByEdges ==
  Mode # "tree" /\ Traversal.ok /\ (\A r \in Roles : Cardinality({i \in DOMAIN edges : edges[i].to = r}) <= 1)
     => Len(Traversal.reqs) <= Len(edges)
CyclesRefused == Mode = "graph" /\ CycleCheck /\ Traversal.ok => TRUE

-----------------------------------------------------------------------------
\* C05 (delegated roles): a delegated role must be listed in the trusted snapshot and have exactly
\* the version listed there; under consistent snapshots the version-prefixed file is requested.
\* One case per combination (Mode "pins" of the harness; the model is this table).
PinCases == {[depth |-> d, listed |-> l, pinned |-> p, file |-> f, cons |-> c] :
               d \in 1..2, l \in BOOLEAN, p \in 1..2, f \in 1..2, c \in BOOLEAN}
PinAccept(c) == c.listed /\ c.pinned = c.file
EmitPins == edges = <<>> => PrintT(<<"REPLAY", ToJson([cases |-> {[c |-> x, accept |-> PinAccept(x)] : x \in PinCases}])>>)

Emit == IF Mode = "tree"
        THEN PrintT(<<"REPLAY", ToJson([edges |-> edges, lists |-> lists, loadok |-> LoadOk,
                        find |-> [n \in Names |-> SpecFind(n)]])>>)
        ELSE PrintT(<<"REPLAY", ToJson([edges |-> edges, ok |-> Traversal.ok, why |-> Traversal.why,
                        reqs |-> Traversal.reqs])>>)
=============================================================================
