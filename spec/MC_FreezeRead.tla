--------------------------- MODULE MC_FreezeRead ---------------------------
(***************************************************************************)
(* Configuration of TufClient for the read-after-load part of C04: the     *)
(* four trusted documents expire at four independently chosen instants,    *)
(* the clock moves only once the repository is loaded, and targets are     *)
(* then read.  The earliest of the four expirations, whichever role it     *)
(* belongs to, bounds every later read.                                    *)
(***************************************************************************)
EXTENDS TufClient
CONSTANTS Exps

R(v, e) == [k |-> "root", v |-> v, exp |-> e, len |-> 1, b |-> 1, signers |-> {9}, cons |-> FALSE,
            rk |-> {9}, rthr |-> 1, ts |-> <<1>>, tsthr |-> 1, sn |-> <<3>>, snthr |-> 1, tg |-> <<4>>, tgthr |-> 1]
MC_Shipped == {R(1, e) : e \in Exps}
MC_ShipRule(sh, mx) == TRUE
MC_CandRoot(n, tr) == {[k |-> "absent"]}
Pin(v) == [v |-> v, h |-> NoDoc, len |-> 0]
MC_CandTs(r) == {[k |-> "ts", v |-> 1, exp |-> e, len |-> 1, b |-> 1, signers |-> {1}, pin |-> Pin(1)] : e \in Exps}
MC_CandSn(r, ts) == {[k |-> "sn", v |-> 1, exp |-> e, len |-> 1, b |-> 1, signers |-> {3}, pin |-> Pin(1)] : e \in Exps}
MC_CandTg(r, sn) == {[k |-> "tg", v |-> 1, exp |-> e, len |-> 1, b |-> 1, signers |-> {4}] : e \in Exps}
MC_Limit == [root |-> 2, ts |-> 2, sn |-> 2, tg |-> 2]
NoChain == <<>>

\* the clock stands still during the cycle and moves between load and reads
NextR == StartCycle \/ RootFail \/ RootStep \/ TsStep \/ SnMissing \/ SnStep \/ TgMissing \/ TgStep
         \/ ReadTarget \/ (pc = "loaded" /\ ClockJump)
SpecR == Init /\ [][NextR]_vars

\* C04: a read that succeeds while enforcing happens before the earliest of the four expirations
EarliestOfFour == LET s == succ[Len(succ)] IN
  pc = "loaded" => s.exp = Min(Min(root.exp, cur.ts.exp), Min(cur.sn.exp, cur.tg.exp))
=============================================================================
