SPECIFICATION Spec
CONSTANTS
  Tries = 2
  Size = 2
  Announce = TRUE
  CountFirst = TRUE
  NeedPartial = TRUE
INVARIANTS PrefixOnly OkMeansComplete RequestsAtMostTries RangeOnlyIfAnnounced NotFoundClass ClientErrorsFailFast
CHECK_DEADLOCK FALSE
