SPECIFICATION Spec
CONSTANTS
  V = 2
  Cons = TRUE
  MaxCycles = 1
  MaxRootUpdates = 4
  Times = {0}
  ClockMoves = FALSE
  EnforceChoices = {TRUE}
  Reads = FALSE
  MaxReads = 0
  Shipped <- MC_Shipped
  ShipRule <- MC_ShipRule
  CandRoot <- MC_CandRoot
  CandTs <- MC_CandTs
  CandSn <- MC_CandSn
  CandTg <- MC_CandTg
  Limit <- MC_Limit
  Chain0 <- NoChain
VIEW view
INVARIANTS PinsMatch ConsistentNames TrustedVerified SizesBounded RequestsBounded
CHECK_DEADLOCK FALSE
