---------------------------- MODULE TufStoreConc ----------------------------
(***************************************************************************)
(* Two update cycles, in two processes, running AT THE SAME TIME on one    *)
(* datastore directory (tough/src/datastore.rs has locks inside one        *)
(* Datastore object only; two RepositoryLoader::load calls, or two         *)
(* processes, that name the same directory share nothing but the files).   *)
(*                                                                         *)
(* This goes beyond the listed properties: C03 and C15 speak of sequences   *)
(* of cycles.  It is the schedule dimension of TufStore.tla: the same      *)
(* per-phase calls (read the stored document, rollback check, clock, write *)
(* a temporary file, rename it over the stored document), interleaved.     *)
(*                                                                         *)
(* Grain: per process and per role two steps -                             *)
(*   R(f): open-r f, the rollback check against what was read (the cycle   *)
(*         ends with OlderMetadata here), latest_known_time, the temporary *)
(*         file is written;                                                *)
(*   W(f): rename(tmp, f), then the fetch and verification of the next     *)
(*         role up to its R step.                                          *)
(* Everything else a cycle does touches only process-private state (the    *)
(* temporary files have unique names) or latest_known_time.json, which     *)
(* both processes rewrite with a clock that only moves forward.            *)
(*                                                                         *)
(* History: a cycle has stored version Old of every role.  Process A is    *)
(* served version ver.A of every role, process B version ver.B (all        *)
(* correctly signed).  After both have ended a further, ordinary cycle is  *)
(* served version v of every role, for each v in {Old, ver.A, ver.B}.      *)
(***************************************************************************)
EXTENDS Naturals, Sequences, FiniteSets, TLC, Json

CONSTANTS Old,     \* version stored by the cycle that ended before A and B started
          Pairs    \* set of <<version served to A, version served to B>>

Procs == {"A", "B"}
Files == {"ts", "sn", "tg"}
RoleName == [ts |-> "timestamp", sn |-> "snapshot", tg |-> "targets"]
Steps == << [op |-> "R", f |-> "ts"], [op |-> "W", f |-> "ts"],
            [op |-> "R", f |-> "sn"], [op |-> "W", f |-> "sn"],
            [op |-> "R", f |-> "tg"], [op |-> "W", f |-> "tg"] >>

VARIABLES
  files,   \* f -> version of the (always complete) document stored under f
  ver,     \* p -> version this process is served
  pc,      \* p -> number of steps taken
  res,     \* p -> "running" | "ok" | "Older:<role>"
  sched,   \* history: the processes in the order in which they stepped
  lowered  \* history: some rename replaced a stored document by a lower version
vars == <<files, ver, pc, res, sched, lowered>>

Init == /\ files = [f \in Files |-> Old]
        /\ \E pr \in Pairs : ver = [A |-> pr[1], B |-> pr[2]]
        /\ pc = [p \in Procs |-> 0]
        /\ res = [p \in Procs |-> "running"]
        /\ sched = <<>>
        /\ lowered = FALSE

Step(p) ==
  /\ res[p] = "running"
  /\ LET s == Steps[pc[p] + 1] IN
       IF s.op = "R"
       THEN \* lib.rs load_timestamp / load_snapshot / load_targets: the stored document is read once,
            \* compared, and not looked at again before it is replaced
            /\ IF files[s.f] > ver[p]
               THEN res' = [res EXCEPT ![p] = "Older:" \o RoleName[s.f]] /\ pc' = pc
               ELSE res' = res /\ pc' = [pc EXCEPT ![p] = @ + 1]
            /\ UNCHANGED <<files, lowered>>
       ELSE /\ files' = [files EXCEPT ![s.f] = ver[p]]
            /\ lowered' = (lowered \/ ver[p] < files[s.f])
            /\ pc' = [pc EXCEPT ![p] = @ + 1]
            /\ res' = IF pc[p] + 1 = Len(Steps) THEN [res EXCEPT ![p] = "ok"] ELSE res
  /\ sched' = Append(sched, p)
  /\ UNCHANGED ver

Next == \E p \in Procs : Step(p)
Spec == Init /\ [][Next]_vars

Done == \A p \in Procs : res[p] # "running"

\* the ordinary cycle that follows (TufStore.tla FollowRes with one version for every role)
FollowRes(v) ==
  IF files["ts"] > v THEN "Older:timestamp"
  ELSE IF files["sn"] > v THEN "Older:snapshot"
  ELSE IF files["tg"] > v THEN "Older:targets"
  ELSE "ok"

-----------------------------------------------------------------------------
\* What holds under every schedule

\* a stored document is always a complete one that some cycle was served (temporary file + rename)
NeverTorn == \A f \in Files : files[f] \in {Old, ver["A"], ver["B"]}
\* what had been trusted before the two cycles started keeps protecting: nothing below it is
\* ever stored, so no later cycle accepts less (the part of C03 / C15 that survives concurrency)
NeverBelowEarlier == \A f \in Files : files[f] >= Old
FollowNeverBelowEarlier == Done => \A v \in 0..(Old - 1) : FollowRes(v) # "ok"
\* a cycle that succeeds was served nothing older than what it found
SuccessNotOlder == \A p \in Procs : res[p] = "ok" => ver[p] >= Old
\* a refusal is a rollback refusal: the process was served less than some other cycle had stored
RefusedMeansOlder == \A p \in Procs : res[p] \notin {"running", "ok"} =>
                        ver[p] < Old \/ \E q \in Procs \ {p} : ver[p] < ver[q]

\* a stored document is replaced by a lower version only when the two cycles really overlap:
\* with one cycle entirely before the other (what C03 and C15 quantify over) it cannot happen
Serial == \E k \in 0..Len(sched) :
             /\ \A i \in 1..k : sched[i] = sched[1]
             /\ \A i \in (k + 1)..Len(sched) : sched[i] # sched[1]
LoweredOnlyIfOverlapping == lowered => ~Serial

\* What does NOT hold, and is reported as an observation (DESIGN.md section 9): a cycle succeeds
\* with version v while the directory ends up with less, so that the next cycle accepts less than v.
LostUpdate == Done /\ \E p \in Procs : res[p] = "ok" /\ \E f \in Files : files[f] < ver[p]
NoLostUpdate == ~LostUpdate

-----------------------------------------------------------------------------
\* behaviour generation: one line per complete schedule
Cands == <<Old, ver["A"], ver["B"]>>
Emit == Done =>
  PrintT(<<"REPLAY", ToJson([sched |-> sched, a |-> ver["A"], b |-> ver["B"], old |-> Old,
                             res |-> res, files |-> files, lost |-> LostUpdate,
                             follow |-> [i \in 1..3 |-> [v |-> Cands[i], r |-> FollowRes(Cands[i])]]])>>)
=============================================================================
