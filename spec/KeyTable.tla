------------------------------ MODULE KeyTable ------------------------------
(***************************************************************************)
(* Key tables and key identifiers (property C13): tough/src/schema/de.rs   *)
(* deserialize_keys, key.rs Key::key_id.                                   *)
(*                                                                         *)
(* A key table is a sequence of entries [id, spell, key]: `key` is the     *)
(* content of the key (an abstract value; its digest is the identity),     *)
(* `id` the identifier bytes under which it is listed and `spell` how the  *)
(* identifier is spelled (hex case).  One mutation is applied to a correct *)
(* table.  ParseOk is the property; AlgoParse transcribes the visitor.     *)
(***************************************************************************)
EXTENDS Naturals, Sequences, FiniteSets, TLC, Json

CONSTANTS MaxKeys, Sites

Mutations == {"none", "flip", "swap", "truncate", "uppercase", "duplicate", "duplicate-respelled",
              "extra-member-recomputed", "extra-member-stale"}

VARIABLES n, site, mut, pos
vars == <<n, site, mut, pos>>

Init == /\ n \in 1..MaxKeys /\ site \in Sites /\ mut \in Mutations /\ pos \in 1..n
        /\ (mut = "swap" => n >= 2)
Next == UNCHANGED vars
Spec == Init /\ [][Next]_vars

\* the correct table: key i (content i) listed under identifier i, spelled in lower case
Correct == [i \in 1..n |-> [id |-> i, spell |-> "lower", key |-> i]]
Other(i) == IF i = n THEN 1 ELSE i + 1
Table ==
  CASE mut = "none"      -> Correct
    [] mut = "flip"      -> [Correct EXCEPT ![pos].id = 100 + pos]             \* one bit changed
    [] mut = "swap"      -> [Correct EXCEPT ![pos].id = Other(pos), ![Other(pos)].id = pos]
    [] mut = "truncate"  -> [Correct EXCEPT ![pos].id = 200 + pos]             \* shorter byte string
    [] mut = "uppercase" -> [Correct EXCEPT ![pos].spell = "upper"]            \* same bytes
    [] mut = "duplicate" -> Append(Correct, Correct[pos])
    [] mut = "duplicate-respelled" -> Append(Correct, [Correct[pos] EXCEPT !.spell = "upper"])
    \* an unknown member inside the key changes its content, hence its digest (content 50 + pos)
    [] mut = "extra-member-recomputed" -> [Correct EXCEPT ![pos] = [id |-> 50 + pos, spell |-> "lower", key |-> 50 + pos]]
    [] mut = "extra-member-stale"      -> [Correct EXCEPT ![pos].key = 50 + pos]

Digest(key) == key
\* the property
ParseOk == /\ \A i \in DOMAIN Table : Table[i].id = Digest(Table[i].key)
           /\ \A i, j \in DOMAIN Table : i # j => Table[i].id # Table[j].id
\* the code: entries are visited in order; each identifier is compared (as bytes) with the
\* recomputed digest, then inserted into a map keyed by identifier bytes; a second insert fails
RECURSIVE AlgoFrom(_, _)
AlgoFrom(i, seen) == IF i > Len(Table) THEN TRUE
                     ELSE IF Table[i].id # Digest(Table[i].key) THEN FALSE
                     ELSE IF Table[i].id \in seen THEN FALSE
                     ELSE AlgoFrom(i + 1, seen \cup {Table[i].id})
AlgoParse == AlgoFrom(1, {})
ParseMeetsSpec == AlgoParse = ParseOk

Emit == PrintT(<<"REPLAY", ToJson([n |-> n, site |-> site, mut |-> mut, pos |-> pos, ok |-> ParseOk])>>)
=============================================================================
