SPECIFICATION Spec
CONSTANTS
  Alphabet <- TargetAlphabet
  MaxLen = 3
  Mode = "target"
INVARIANTS Confined Emit
CHECK_DEADLOCK FALSE
