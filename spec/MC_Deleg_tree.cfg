SPECIFICATION Spec
CONSTANTS
  Mode = "tree"
  Roles = {"a", "b"}
  Names = {"n1", "n2"}
  MaxEdges = 0
  CycleCheck = TRUE
  Fuel = 5
INVARIANTS FindMeetsSpec LoadedMeansAuthorized
CHECK_DEADLOCK FALSE
