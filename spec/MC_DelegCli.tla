---------------------------- MODULE MC_DelegCli ----------------------------
EXTENDS DelegCli
MC_AnyPlan == {<<>>}
\* generation: the usual opening (the holder creates A, the owner delegates to it), then any kinds
FreeLen == IF MaxSteps - 2 > 5 THEN 5 ELSE MaxSteps - 2        \* the set of plans must stay enumerable
Free == {<<"create", "owneradd">> \o q : q \in [1..FreeLen -> Kinds \ {"owneradd"}]}
\* every other command is the owner incorporating what was staged
Alt  == {<<"create", "owneradd">> \o [i \in 1..(MaxSteps - 2) |-> IF i % 2 = 0 THEN "incorporate" ELSE q[(i + 1) \div 2]] :
            q \in [1..((MaxSteps - 1) \div 2) -> Kinds \ {"owneradd", "incorporate"}]}
\* the second-level flow: B is created, A delegates to it, the owner incorporates A, B's holder updates, ...
\* the two-step way of adding a role: staged by the owner, then published with `update --role targets`
Staged == {<<"create", "owneraddstaged", "incorporateT">> \o q : q \in [1..(MaxSteps - 3) -> Kinds \ {"owneradd"}]}
Deep == {<<"create", "owneradd", "create", "delegadd", "incorporateA">> \o q :
            q \in [1..(MaxSteps - 5) -> {"update", "incorporate", "removekey", "create", "haddkey", "hremovekey", "hremoverole"}]}
MC_Free == Free
MC_Alt == Alt
MC_Deep == Deep
MC_Staged == Staged
\* the owner's key operations, each published at once: add-key / remove-key / remove, then `update --role targets`
\* (enumerated exhaustively, not simulated: 4 commands; KeyOps2: a second operation and publication)
MC_KeyOps == {<<"create", "owneradd", k, "incorporateT">> : k \in {"addkey", "removekey", "removerole"}}
MC_KeyOps2 == {<<"create", "owneradd", k, "incorporateT", k2, "incorporateT">> : k \in {"addkey", "removekey"}, k2 \in {"addkey", "removekey", "removerole", "update"}}
=============================================================================
