SPECIFICATION SpecR
CONSTANTS
  Exps = {1, 2, 3}
  MaxCycles = 1
  MaxRootUpdates = 4
  Times = {0, 1, 2, 3}
  ClockMoves = TRUE
  EnforceChoices = {TRUE}
  Reads = TRUE
  MaxReads = 1
  Shipped <- MC_Shipped
  ShipRule <- MC_ShipRule
  CandRoot <- MC_CandRoot
  CandTs <- MC_CandTs
  CandSn <- MC_CandSn
  CandTg <- MC_CandTg
  Limit <- MC_Limit
  Chain0 <- NoChain
VIEW view
INVARIANTS ReadAfterExpiryFails EarliestOfFour UnsafeNeverFailsForTime
CHECK_DEADLOCK FALSE
