---------------------------- MODULE RollbackCore ----------------------------
(***************************************************************************)
(* The version rules of one client with a datastore against one publisher, *)
(* over unbounded versions (the honest-document core of TufClient.tla and  *)
(* of Lifecycle.tla's Refresh): the stored timestamp, snapshot and targets *)
(* versions, and the targets version the stored snapshot lists, against    *)
(* the published ones.  Checked with Apalache by an inductive invariant    *)
(* (TLC checks the same module with versions bounded by a constraint).     *)
(*                                                                         *)
(* Publish: the publisher sets any versions (also lower ones).             *)
(* Refresh: tough/src/lib.rs load_timestamp / load_snapshot / load_targets *)
(* in order; each phase that passes stores its document before the next    *)
(* one is checked.                                                         *)
(***************************************************************************)
EXTENDS Integers

VARIABLES
  \* @type: Int;
  pts,
  \* @type: Int;
  psn,
  \* @type: Int;
  ptg,
  \* @type: Int;
  cts,
  \* @type: Int;
  csn,
  \* @type: Int;
  csntg,
  \* @type: Int;
  ctg,
  \* @type: Bool;
  mono,
  \* @type: Str;
  res,
  \* @type: Int;
  mts,     \* the highest timestamp / snapshot / targets version the client ever stored
  \* @type: Int;
  msn,
  \* @type: Int;
  mtg
vars == <<pts, psn, ptg, cts, csn, csntg, ctg, mono, res, mts, msn, mtg>>

Init == /\ pts = 1 /\ psn = 1 /\ ptg = 1
        /\ cts = 0 /\ csn = 0 /\ csntg = 0 /\ ctg = 0
        /\ mono = TRUE /\ res = "none"
        /\ mts = 0 /\ msn = 0 /\ mtg = 0

\* every positive version (TLC: overridden by SmallVers)
VerSet == Nat \ {0}
SmallVers == 1..3
Publish ==
  \E a \in VerSet, b \in VerSet, c \in VerSet :
    /\ pts' = a /\ psn' = b /\ ptg' = c
    /\ mono' = (mono /\ a >= pts /\ b >= psn /\ c >= ptg)
    /\ res' = "published"
    /\ UNCHANGED <<cts, csn, csntg, ctg, mts, msn, mtg>>

Max(a, b) == IF a >= b THEN a ELSE b
Refresh ==
  /\ UNCHANGED <<pts, psn, ptg, mono>>
  /\ IF cts > pts
     THEN res' = "Older:timestamp" /\ UNCHANGED <<cts, csn, csntg, ctg>>
     ELSE /\ cts' = pts
          /\ IF csn > psn
             THEN res' = "Older:snapshot" /\ UNCHANGED <<csn, csntg, ctg>>
             ELSE IF csntg > ptg
             THEN res' = "Older:targets" /\ UNCHANGED <<csn, csntg, ctg>>
             ELSE /\ csn' = psn /\ csntg' = ptg
                  /\ IF ctg > ptg
                     THEN res' = "Older:targets" /\ UNCHANGED ctg
                     ELSE res' = "ok" /\ ctg' = ptg
  /\ mts' = Max(mts, cts') /\ msn' = Max(msn, csn') /\ mtg' = Max(mtg, ctg')

Next == Publish \/ Refresh
Spec == Init /\ [][Next]_vars

-----------------------------------------------------------------------------
TypeOK == /\ pts \in Nat /\ psn \in Nat /\ ptg \in Nat
          /\ cts \in Nat /\ csn \in Nat /\ csntg \in Nat /\ ctg \in Nat
          /\ mts \in Nat /\ msn \in Nat /\ mtg \in Nat
          /\ mono \in BOOLEAN
          /\ res \in {"none", "published", "ok", "Older:timestamp", "Older:snapshot", "Older:targets"}

\* a publisher that never lowers a version never locks its client out ...
Serves == mono => res \in {"none", "published", "ok"}
\* ... because the client never trusts more than is published
Behind == mono => /\ cts <= pts /\ csn <= psn /\ csntg <= ptg /\ ctg <= ptg
\* a successful refresh trusts exactly what is published
SeesPublished == res = "ok" => cts = pts /\ csn = psn /\ csntg = ptg /\ ctg = ptg
\* rollback: a stored version is never replaced by a lower one (whatever the publisher does)
NoRollback == cts = mts /\ csn = msn /\ ctg = mtg
Positive == pts >= 1 /\ psn >= 1 /\ ptg >= 1

\* inductive invariant (Apalache: Init => IndInv at length 0; IndInv /\ Next => IndInv' at length 1)
IndInv == TypeOK /\ Positive /\ Behind /\ Serves /\ SeesPublished /\ NoRollback
IndInit == IndInv

\* bounded variant for TLC
Small == pts <= 3 /\ psn <= 3 /\ ptg <= 3
=============================================================================
