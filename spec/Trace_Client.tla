---------------------------- MODULE Trace_Client ----------------------------
(***************************************************************************)
(* Trace validation for TufClient: traces recorded from the real client    *)
(* (harness command `vh client`) are checked against the specification.    *)
(*                                                                         *)
(* Mode "strict": every recorded event must be explained by the action of  *)
(* TufClient with the same name, taking the logged environment choice      *)
(* (what was served, the clock) and reproducing the logged request name,   *)
(* the logged result of the cycle, the versions it reports and the logged  *)
(* projection of the datastore.  Outcomes of individual phases are not     *)
(* logged: TLC infers them.  A trace that cannot be explained is reported  *)
(* (MISMATCH) and skipped up to its end, so one run covers many traces.    *)
(* All property invariants of TufClient are evaluated at the end of every  *)
(* cycle and reported in a VERDICT line.                                   *)
(*                                                                         *)
(* Mode "obs": no guards.  The observable history is rebuilt from the      *)
(* logged requests, served documents, clock samples and results alone, and *)
(* the properties -- restated over exactly these observables -- are        *)
(* evaluated on it.  This decides VIOLATION vs DRIFT for traces that       *)
(* strict mode cannot explain.                                             *)
(***************************************************************************)
EXTENDS TufClient, IOUtils

CONSTANTS LimRoot, LimTs, LimSn, LimTg,   \* the limits the harness configured, in units
          Mode,    \* "strict" | "obs"
          Unit,    \* bytes per length unit used by the harness
          Chunk,   \* bytes per transport chunk used by the harness (0: whole body)
          Slack    \* bytes by which the configured limits exceed Lim* units (byte-exact limit runs)
VARIABLES l,      \* position in the trace
          tid,    \* id of the trace being read
          ob      \* observation record: [seen, served, bytesBad, gapBad, knownBefore, exp, expRole]

Rec == ndJsonDeserialize(IOEnv.TRACE)
tvars == <<vars, l, tid, ob>>

SetOf(s) == {s[i] : i \in DOMAIN s}
Max(a, b) == IF a > b THEN a ELSE b

RECURSIVE ToDoc(_)
ToDoc(j) ==
  CASE j.k = "root" ->
         [k |-> "root", v |-> j.v, exp |-> j.exp, len |-> j.len, b |-> j.b, signers |-> SetOf(j.signers),
          cons |-> j.cons, rk |-> SetOf(j.rk), rthr |-> j.rthr, ts |-> j.ts, tsthr |-> j.tsthr,
          sn |-> j.sn, snthr |-> j.snthr, tg |-> j.tg, tgthr |-> j.tgthr]
    [] j.k \in {"ts", "sn"} ->
         [k |-> j.k, v |-> j.v, exp |-> j.exp, len |-> j.len, b |-> j.b, signers |-> SetOf(j.signers),
          pin |-> [v |-> j.pin.v, h |-> ToDoc(j.pin.h), len |-> j.pin.len]]
    [] j.k = "tg" ->
         [k |-> "tg", v |-> j.v, exp |-> j.exp, len |-> j.len, b |-> j.b, signers |-> SetOf(j.signers)]
    [] j.k = "garbage" -> [k |-> "garbage", len |-> j.len]
    [] OTHER -> [k |-> j.k]

ViewDoc(d) == IF IsDoc(d)
              THEN [k |-> d.k, v |-> d.v, signers |-> d.signers, pinv |-> IF d.k = "tg" THEN 0 ELSE d.pin.v]
              ELSE [k |-> d.k]
JView(j) == IF j.k \in {"ts", "sn", "tg"}
            THEN [k |-> j.k, v |-> j.v, signers |-> SetOf(j.signers), pinv |-> j.pinv]
            ELSE [k |-> j.k]
\* traces recorded from the repository's own tests with a temporary datastore cannot say what it held after a failed
\* cycle: the store is then logged as [k |-> "unknown"] and not compared
StoreKnown(j) == "ts" \in DOMAIN j
StoreMatches(j) == /\ ViewDoc(store.ts) = JView(j.ts) /\ ViewDoc(store.sn) = JView(j.sn)
                   /\ ViewDoc(store.tg) = JView(j.tg) /\ known = j.known

IsEv(e) == l <= Len(Rec) /\ Rec[l].ev = e /\ l' = l + 1

NoOb == [seen |-> {}, served |-> <<>>, bytesBad |-> 0, gapBad |-> 0, knownBefore |-> -1, exp |-> 0, expRole |-> "none"]

ResetVars(e) ==
  /\ pc' = "idle" /\ cyc' = 0 /\ shipped' = NoDoc /\ root' = NoDoc /\ cur' = NoCur
  /\ store' = NoCur /\ known' = -1 /\ now' = 0 /\ enforce' = TRUE
  /\ reqs' = <<>> /\ res' = "none" /\ succ' = <<>> /\ maxRoot' = 0 /\ stale' = 0
  /\ last' = [ev |-> "none", s |-> NoDoc] /\ walk' = <<>> /\ reord' = 0 /\ nread' = 0
  /\ chain' = [i \in DOMAIN e.chain |-> ToDoc(e.chain[i])]
  /\ hist' = <<>> /\ tid' = e.id /\ ob' = NoOb

TReset == IsEv("reset") /\ ResetVars(Rec[l])

\* the harness pulls at most one chunk beyond the bound before the size adapter fails the
\* stream (with whole-body chunks, Chunk = 0, nothing can be said about a single chunk)
BytesOK(e, bound) == Chunk = 0 \/ e.pulled <= bound * Unit + Slack + Chunk
Bad(e, bound) == IF BytesOK(e, bound) THEN 0 ELSE 1

-----------------------------------------------------------------------------
\* strict mode
StrictVerdict(e) ==
  [id |-> tid, l |-> l, mode |-> "strict", res |-> e.res, cyc |-> cyc, nsucc |-> Len(succ),
   rollback |-> RollbackSafe, rollbackKF |-> RollbackSafeModKF,
   rollbackStale |-> RollbackSafeModStale, rollbackOrder |-> RollbackSafeModOrder,
   lockout |-> NoLockout, c14 |-> RecoversAfterRotation, c14any |-> RecoversAfterRotationAny,
   c14applies |-> C14Applies,
   trusted |-> TrustedVerified, pins |-> PinsMatch, names |-> ConsistentNames,
   walk |-> (WalkDoublySigned /\ WalkEndsAtRoot /\ NeverBelowShipped /\ RootReqsConsecutive),
   bounded |-> (RequestsBounded /\ SizesBounded /\ RootRequestsBounded),
   bytes |-> (ob.bytesBad = 0),
   time |-> UnsafeNeverFailsForTime,
   nreq |-> Len(reqs)]

TClock == IsEv("clock") /\ ClockTo(Rec[l].now) /\ UNCHANGED <<tid, ob>>
TStart == IsEv("start") /\ StartWith(ToDoc(Rec[l].shipped), Rec[l].enforce)
          /\ ob' = [ob EXCEPT !.bytesBad = 0] /\ UNCHANGED tid
TRoot  == IsEv("root") /\ pc = "root" /\ Rec[l].req = <<"root", root.v + 1>>
          /\ RootStepWith(ToDoc(Rec[l].s))
          /\ ob' = [ob EXCEPT !.bytesBad = @ + Bad(Rec[l], Limit.root)] /\ UNCHANGED tid
TTs    == IsEv("ts") /\ pc = "ts" /\ Rec[l].req = <<"ts", 0>>
          /\ TsStepWith(ToDoc(Rec[l].s))
          /\ ob' = [ob EXCEPT !.bytesBad = @ + Bad(Rec[l], Limit.ts)] /\ UNCHANGED tid
TSn    == IsEv("sn") /\ pc = "sn" /\ Rec[l].req = SnReq
          /\ SnStepWith(ToDoc(Rec[l].s))
          /\ ob' = [ob EXCEPT !.bytesBad = @ + Bad(Rec[l], SnBound(cur.ts))] /\ UNCHANGED tid
TTg    == IsEv("tg") /\ pc = "tg" /\ Rec[l].req = TgReq
          /\ TgStepWith(ToDoc(Rec[l].s))
          /\ ob' = [ob EXCEPT !.bytesBad = @ + Bad(Rec[l], TgBound(cur.sn))] /\ UNCHANGED tid
\* steps of the code that make no request and are therefore not in the log
TSilent == (RootFail \/ SnMissing \/ TgMissing) /\ UNCHANGED <<l, tid, ob>>
VersMatch(e) == LET s == succ[Len(succ)] IN
                /\ e.vers.root = s.root /\ e.vers.ts = s.ts /\ e.vers.sn = s.sn
                /\ e.vers.tg = s.tg /\ e.vers.ltg = s.ltg
TEnd == /\ IsEv("end") /\ pc \in {"idle", "loaded"}
        /\ UNCHANGED <<vars, tid, ob>>
        /\ LET e == Rec[l] IN
           /\ res = e.res
           /\ (res = "ok" => VersMatch(e))
           /\ (StoreKnown(e.store) => StoreMatches(e.store))
           /\ PrintT(<<"VERDICT", ToJson(StrictVerdict(e))>>)
TRead == /\ IsEv("read") /\ pc = "loaded" /\ Rec[l].res = ReadRes
         /\ res' = ReadRes
         /\ known' = (IF enforce /\ ReadRes # "SystemTimeSteppedBackward" THEN now ELSE known)
         /\ last' = [ev |-> "read", s |-> NoDoc]
         /\ UNCHANGED <<pc, cyc, shipped, root, cur, store, now, enforce, reqs, succ, maxRoot, stale, walk, reord, nread, chain, hist, tid, ob>>
         /\ (known' = Rec[l].store.known)
         /\ PrintT(<<"VERDICT", ToJson([id |-> tid, l |-> l, mode |-> "strict", res |-> Rec[l].res,
                                        read |-> TRUE, time |-> TRUE])>>)

TMain == TClock \/ TStart \/ TRoot \/ TTs \/ TSn \/ TTg \/ TSilent \/ TEnd \/ TRead

NextReset(i) == LET S == {j \in (i + 1)..Len(Rec) : Rec[j].ev = "reset"} IN
                IF S = {} THEN Len(Rec) + 1 ELSE CHOOSE j \in S : \A m \in S : j <= m
\* the trace cannot be explained: report it and continue with the next one
TSkip == /\ l <= Len(Rec) /\ Rec[l].ev # "reset" /\ ~ENABLED TMain
         /\ PrintT(<<"MISMATCH", ToJson([id |-> tid, l |-> l, ev |-> Rec[l].ev,
                       pc |-> pc, res |-> res, got |-> Rec[l]])>>)
         /\ l' = NextReset(l)
         /\ UNCHANGED <<vars, tid, ob>>

StrictNext == TReset \/ TMain \/ TSkip

-----------------------------------------------------------------------------
\* observational mode: state is set from what was logged, nothing is guarded.
\*   shipped, enforce, now, cyc, reqs : as logged
\*   cur      : the documents SERVED for timestamp / snapshot / targets in this cycle
\*   ob.served: the shipped root, then the root documents served in this cycle, in request order
\*   store    : the logged projection of the datastore after the previous operation
\*   succ     : built from the logged results of successful cycles
SelfSigned(d) == d.k = "root" /\ Verifies(d.signers, d.rk, d.rthr)
Doubly(a, b) == /\ b.k = "root" /\ Verifies(b.signers, a.rk, a.rthr) /\ Verifies(b.signers, b.rk, b.rthr)
                /\ b.v > a.v
RECURSIVE ValidPrefix(_, _)
ValidPrefix(w, n) == IF n < Len(w) /\ Doubly(w[n], w[n + 1]) THEN ValidPrefix(w, n + 1) ELSE n
OrderOnly(a, b) == /\ (a.ts # b.ts \/ a.sn # b.sn)
                   /\ KeySet(a, "ts") = KeySet(b, "ts") /\ KeySet(a, "sn") = KeySet(b, "sn")

OClock == IsEv("clock") /\ now' = Rec[l].now
          /\ UNCHANGED <<pc, cyc, shipped, root, cur, store, known, enforce, reqs, res, succ, maxRoot, stale, walk, reord, nread, last, chain, hist, tid, ob>>
OStart == /\ IsEv("start")
          /\ LET sh == ToDoc(Rec[l].shipped) IN
             /\ shipped' = sh /\ cyc' = cyc + 1 /\ enforce' = Rec[l].enforce
             /\ stale' = IF sh.v < maxRoot THEN stale + 1 ELSE stale
             /\ maxRoot' = IF SelfSigned(sh) THEN Max(maxRoot, sh.v) ELSE maxRoot
             /\ ob' = [ob EXCEPT !.seen = {sh}, !.served = <<sh>>, !.bytesBad = 0, !.gapBad = 0,
                                 !.knownBefore = known]
             /\ cur' = NoCur /\ reqs' = <<>> /\ last' = [ev |-> "start", s |-> NoDoc]
          /\ UNCHANGED <<pc, root, store, known, now, res, succ, walk, reord, nread, chain, hist, tid>>
ObsBound(ev) == CASE ev = "root" -> Limit.root
                  [] ev = "ts" -> Limit.ts
                  [] ev = "sn" -> IF cur.ts.k = "ts" THEN SnBound(cur.ts) ELSE Limit.sn
                  [] ev = "tg" -> IF cur.sn.k = "sn" THEN TgBound(cur.sn) ELSE Limit.tg
OFetch == /\ l <= Len(Rec) /\ Rec[l].ev \in {"root", "ts", "sn", "tg"} /\ l' = l + 1
          /\ LET s == ToDoc(Rec[l].s)
                 e == Rec[l]
             IN
             /\ reqs' = Append(reqs, e.req)
             /\ last' = [ev |-> e.ev, s |-> s]
             /\ IF e.ev = "root"
                THEN /\ ob' = [ob EXCEPT !.seen = IF s.k = "root" THEN @ \cup {s} ELSE @,
                                         !.served = IF s.k = "root" THEN Append(@, s) ELSE @,
                                         !.bytesBad = @ + Bad(e, ObsBound("root")),
                                         \* a root request after one that was not available
                                         !.gapBad = @ + (IF last.ev = "root" /\ last.s.k = "absent" THEN 1 ELSE 0)]
                     \* a validly self-signed root that was shown to the client counts as known to it
                     /\ maxRoot' = IF SelfSigned(s) /\ s.v = e.req[2] THEN Max(maxRoot, s.v) ELSE maxRoot
                     /\ reord' = IF SelfSigned(s) /\ OrderOnly(shipped, s) THEN reord + 1 ELSE reord
                     /\ UNCHANGED cur
                ELSE /\ cur' = [cur EXCEPT ![e.ev] = s]
                     /\ ob' = [ob EXCEPT !.bytesBad = @ + Bad(e, ObsBound(e.ev))]
                     /\ UNCHANGED <<maxRoot, reord>>
          /\ UNCHANGED <<pc, cyc, shipped, root, store, known, now, enforce, res, succ, stale, walk, nread, chain, hist, tid>>

ObsRoot(v) == IF ob.served[ValidPrefix(ob.served, 1)].v = v THEN ob.served[ValidPrefix(ob.served, 1)]
              ELSE IF \E d \in ob.seen : d.v = v THEN CHOOSE d \in ob.seen : d.v = v ELSE NoDoc
JStore(j) == [ts |-> JView(j.ts), sn |-> JView(j.sn), tg |-> JView(j.tg)]
ObsFinal == ob.served[ValidPrefix(ob.served, 1)]      \* the last root that passed, per the log

\* C04 on observables: samples are the clock values the client read, in order
SampleSeq(e) == IF ob.knownBefore = -1 THEN e.samples ELSE <<ob.knownBefore>> \o e.samples
WentBack(q) == \E i \in 1..(Len(q) - 1) : q[i + 1] < q[i]
TimeWords == {"Expired:root", "Expired:timestamp", "Expired:snapshot", "Expired:targets", "SystemTimeSteppedBackward"}
ObsTimeOK(e, fr) ==
  LET q == SampleSeq(e)
      n == Len(e.samples)
  IN
  /\ ~enforce => e.res \notin TimeWords
  \* the clock guard: a sample earlier than the previous one must fail the operation, and only that
  /\ enforce /\ WentBack(q) => e.res = "SystemTimeSteppedBackward"
  /\ e.res = "SystemTimeSteppedBackward" => enforce /\ WentBack(q)
  \* nothing that was expired at its own sample is trusted
  /\ enforce /\ e.res = "ok" =>
        /\ n = 4 /\ fr.k = "root" /\ cur.ts.k = "ts" /\ cur.sn.k = "sn" /\ cur.tg.k = "tg"
        /\ ~Expired(fr, e.samples[1]) /\ ~Expired(cur.ts, e.samples[2])
        /\ ~Expired(cur.sn, e.samples[3]) /\ ~Expired(cur.tg, e.samples[4])
  \* nothing is rejected as expired unless it is
  /\ e.res = "Expired:root"      => n >= 1 /\ fr.k = "root" /\ Expired(fr, e.samples[n])
  /\ e.res = "Expired:timestamp" => n >= 1 /\ cur.ts.k = "ts" /\ Expired(cur.ts, e.samples[n])
  /\ e.res = "Expired:snapshot"  => n >= 1 /\ cur.sn.k = "sn" /\ Expired(cur.sn, e.samples[n])
  /\ e.res = "Expired:targets"   => n >= 1 /\ cur.tg.k = "tg" /\ Expired(cur.tg, e.samples[n])

ObsLockoutOK(e) ==
  /\ e.res = "Older:timestamp" => store.ts.k = "ts" /\ cur.ts.k = "ts" /\ store.ts.v > cur.ts.v
  /\ e.res = "Older:snapshot"  => store.sn.k = "sn" /\ cur.sn.k = "sn" /\ store.sn.v > cur.sn.v
  /\ e.res = "Older:targets"   =>
        \/ store.tg.k = "tg" /\ cur.tg.k = "tg" /\ store.tg.v > cur.tg.v
        \/ store.sn.k = "sn" /\ cur.sn.k = "sn" /\ store.sn.pinv > cur.sn.pin.v

ObsC14Applies(e, fr) ==
  /\ Len(succ) > 0 /\ e.res # "ok" /\ fr.k = "root"
  /\ succ[Len(succ)].cyc = cyc - 1
  /\ fr.v > succ[Len(succ)].root /\ NetChanged(succ[Len(succ)].root, fr.v)
  /\ last.ev \in {"ts", "sn"}
ObsVerdict(e) ==
  LET fr == IF e.res = "ok" THEN ObsRoot(e.vers.root) ELSE ObsFinal
      okDocs == e.res = "ok" => cur.ts.k = "ts" /\ cur.sn.k = "sn" /\ cur.tg.k = "tg" /\ fr.k = "root"
      rootReqs == SelectSeq(reqs, LAMBDA q : q[1] = "root")
      c14a == ObsC14Applies(e, fr)
      \* MetaMissing counts against recovery only when it comes from the rollback check of the
      \* snapshot (3.3.3), i.e. the served snapshot was not stored
      snStored == StoreKnown(e.store) /\ cur.sn.k = "sn" /\ JView(e.store.sn) = ViewDoc(cur.sn)
      c14r == /\ e.res \notin {"Older:timestamp", "Older:snapshot", "Older:targets"}
              /\ (e.res = "MetaMissing" => snStored \/ cur.ts.k # "ts" \/ cur.ts.pin.v = 0)
      c14clean == Len(succ) > 0 /\ shipped.v = succ[Len(succ)].root /\ stale = succ[Len(succ)].stale
  IN
  [id |-> tid, l |-> l, mode |-> "obs", res |-> e.res, cyc |-> cyc, nsucc |-> Len(succ'),
   rollback |-> RollbackSafe', rollbackKF |-> RollbackSafeModKF',
   rollbackStale |-> RollbackSafeModStale', rollbackOrder |-> RollbackSafeModOrder',
   lockout |-> ObsLockoutOK(e),
   c14 |-> (c14a /\ c14clean => c14r), c14any |-> (c14a => c14r), c14applies |-> c14a,
   trusted |-> (okDocs /\ (e.res = "ok" =>
                  /\ Verifies(cur.ts.signers, Range(fr.ts), fr.tsthr)
                  /\ Verifies(cur.sn.signers, Range(fr.sn), fr.snthr)
                  /\ Verifies(cur.tg.signers, Range(fr.tg), fr.tgthr)
                  /\ SelfSigned(fr))),
   pins |-> (okDocs /\ (e.res = "ok" =>
                  /\ cur.sn.v = cur.ts.pin.v
                  /\ (cur.ts.pin.h # NoDoc => cur.sn = cur.ts.pin.h)
                  /\ (cur.ts.pin.len # 0 => cur.sn.len <= cur.ts.pin.len)
                  /\ cur.tg.v = cur.sn.pin.v
                  /\ (cur.sn.pin.h # NoDoc => cur.tg = cur.sn.pin.h)
                  /\ (cur.sn.pin.len # 0 => cur.tg.len <= cur.sn.pin.len)
                  /\ e.vers.ts = cur.ts.v /\ e.vers.sn = cur.sn.v /\ e.vers.tg = cur.tg.v)),
   names |-> (\A i \in DOMAIN reqs :
                /\ reqs[i][1] = "sn" /\ cur.ts.k = "ts" /\ fr.k = "root" =>
                      reqs[i][2] = (IF fr.cons THEN cur.ts.pin.v ELSE 0)
                /\ reqs[i][1] = "tg" /\ cur.sn.k = "sn" /\ fr.k = "root" =>
                      reqs[i][2] = (IF fr.cons THEN cur.sn.pin.v ELSE 0)
                /\ reqs[i][1] \in {"root", "ts", "sn", "tg"}),
   walk |-> (/\ e.res = "ok" => e.vers.root = ObsFinal.v /\ e.vers.root >= shipped.v
             \* a shipped root that does not verify under its own keys is refused, whatever is served after it
             /\ e.res = "ok" => SelfSigned(shipped)
             /\ ob.gapBad = 0
             \* the i-th request for a newer root is made only after i-1 served roots each passed as
             \* the doubly signed, higher-versioned successor of the one before, and asks for the
             \* version right after the last of them
             /\ \A i \in DOMAIN rootReqs : /\ i <= ValidPrefix(ob.served, 1)
                                           /\ rootReqs[i][2] = ob.served[i].v + 1),
   bounded |-> (/\ Len(rootReqs) <= MaxRootUpdates /\ Len(reqs) <= MaxRootUpdates + 3
                /\ e.cap = FALSE
                /\ e.res = "ok" /\ okDocs =>
                                   /\ cur.ts.len <= Limit.ts
                                   /\ cur.sn.len <= SnBound(cur.ts) /\ cur.tg.len <= TgBound(cur.sn)
                                   /\ (fr # shipped => fr.len <= Limit.root)),
   bytes |-> (ob.bytesBad = 0),
   time |-> ObsTimeOK(e, fr),
   nreq |-> Len(reqs)]

\* "A time the client previously recorded in the datastore": every clock sample of an enforcing
\* operation is recorded, except the one that made it fail as stepped backward; the latest of all of
\* them, over all operations on this datastore, is what later samples are held against.
RECURSIVE SeqMax(_, _)
SeqMax(q, m) == IF q = <<>> THEN m ELSE SeqMax(Tail(q), Max(m, Head(q)))
RecordedSamples(e) == IF e.res = "SystemTimeSteppedBackward" /\ Len(e.samples) > 0
                      THEN SubSeq(e.samples, 1, Len(e.samples) - 1) ELSE e.samples
LatestRecorded(e) == SeqMax(RecordedSamples(e), Max(known, e.store.known))

OEnd == /\ IsEv("end")
        /\ UNCHANGED <<pc, cyc, shipped, cur, now, enforce, reqs, maxRoot, stale, walk, reord, nread, last, chain, hist, tid>>
        /\ LET e == Rec[l]
               fr == IF e.res = "ok" THEN ObsRoot(e.vers.root) ELSE NoDoc
           IN
           /\ res' = e.res
           \* "a time the client previously recorded": the latest of all of them - a client that records an
           \* earlier time (and so forgets the later one) must still be held to the later one
           /\ IF StoreKnown(e.store) THEN store' = JStore(e.store) /\ known' = LatestRecorded(e)
                                      ELSE UNCHANGED <<store, known>>
           /\ IF e.res = "ok"
              THEN /\ root' = fr
                   /\ succ' = Append(succ, [root |-> e.vers.root, shipped |-> shipped.v, stale |-> stale,
                                            reord |-> reord, cyc |-> cyc, ts |-> e.vers.ts, sn |-> e.vers.sn,
                                            tg |-> e.vers.tg, ltg |-> e.vers.ltg, enforce |-> enforce,
                                            exp |-> 0, expRole |-> "none"])
                   /\ ob' = IF fr.k = "root" /\ cur.ts.k = "ts" /\ cur.sn.k = "sn" /\ cur.tg.k = "tg"
                            THEN [ob EXCEPT !.exp = Min(Min(fr.exp, cur.ts.exp), Min(cur.sn.exp, cur.tg.exp)),
                                            !.expRole = ExpRole(fr, cur.ts, cur.sn, cur.tg)]
                            ELSE ob
              ELSE UNCHANGED <<root, succ, ob>>
           /\ PrintT(<<"VERDICT", ToJson(ObsVerdict(e))>>)

\* reading a target from the loaded repository: expiry re-check and clock guard, on observables
ORead == /\ IsEv("read")
         /\ LET e == Rec[l]
                q == IF known = -1 THEN e.samples ELSE <<known>> \o e.samples
                back == WentBack(q)
                ok == /\ ~enforce => e.res \notin TimeWords
                      /\ enforce /\ back => e.res = "SystemTimeSteppedBackward"
                      /\ e.res = "SystemTimeSteppedBackward" => enforce /\ back
                      /\ enforce /\ ~back /\ Len(e.samples) >= 1 /\ ob.expRole # "none" =>
                           (e.samples[1] > ob.exp <=> e.res \in TimeWords \ {"SystemTimeSteppedBackward"})
            IN /\ known' = LatestRecorded(e)
               /\ PrintT(<<"VERDICT", ToJson([id |-> tid, l |-> l, mode |-> "obs", res |-> e.res,
                                              read |-> TRUE, time |-> ok])>>)
         /\ UNCHANGED <<pc, cyc, shipped, root, cur, store, now, enforce, reqs, res, succ, maxRoot, stale, walk, reord, nread, last, chain, hist, tid, ob>>

ObsNext == TReset \/ OClock \/ OStart \/ OFetch \/ OEnd \/ ORead

-----------------------------------------------------------------------------
TInit == /\ Init /\ l = 1 /\ tid = -1 /\ ob = NoOb /\ TLCSet(1, 1)
TNext == IF Mode = "strict" THEN StrictNext ELSE ObsNext
TSpec == TInit /\ [][TNext]_tvars

Progress == TLCSet(1, IF l > TLCGet(1) THEN l ELSE TLCGet(1))
TraceAccepted ==
  IF TLCGet(1) = Len(Rec) + 1 THEN TRUE
  ELSE Print(<<"REJECTED at", TLCGet(1), IF TLCGet(1) <= Len(Rec) THEN Rec[TLCGet(1)] ELSE "eof">>, FALSE)

\* dummies for the constants of TufClient that trace validation does not use
D1(a) == {}
D2(a, b) == {}
DRule(a, b) == TRUE
EmptyChain == <<>>
TraceLimit == [root |-> LimRoot, ts |-> LimTs, sn |-> LimSn, tg |-> LimTg]
=============================================================================
