------------------------------- MODULE CJson -------------------------------
(***************************************************************************)
(* OLPC canonical JSON of objects (property C11) and the formatter that    *)
(* produces it (olpc-cjson/src/lib.rs CanonicalFormatter).                 *)
(*                                                                         *)
(* Strings are sequences of symbols from an alphabet chosen to hit every   *)
(* ordering hazard: U+0001, space, '!', '"', 'A', '\', 'a' and the symbol  *)
(* 1000, which stands for the two code points 'e' U+0301 (NFC: U+00E9).    *)
(* Canon is the definition: members ordered by the code points of the      *)
(* NFC-normalised keys, only '"' and '\' escaped.  FormatterRun is the     *)
(* state machine of the formatter driven by the serde_json callbacks in    *)
(* insertion order: each member's key and value are buffered as bytes and  *)
(* kept in an ordered map; end_object writes the map out.                  *)
(*   ByUnescaped = TRUE : the map is ordered by the unescaped key          *)
(*   ByUnescaped = FALSE: by the buffered key bytes (quoted and escaped)   *)
(***************************************************************************)
EXTENDS Naturals, Sequences, FiniteSets, TLC, Json

CONSTANTS MaxKeys, MaxKeyLen, ByUnescaped
Alphabet == {1, 32, 33, 34, 65, 92, 97, 1000}

VARIABLES members    \* the object in insertion order: sequence of keys; member i has value i
vars == <<members>>

RECURSIVE Strings(_)
Strings(n) == IF n = 0 THEN {<<>>} ELSE Strings(n - 1) \cup {Append(s, c) : s \in Strings(n - 1), c \in Alphabet}
Keys == Strings(MaxKeyLen) \ {<<>>}

\* NFC on symbols: the decomposed pair composes to U+00E9; every other symbol is stable
RECURSIVE NFC(_)
NFC(s) == IF s = <<>> THEN <<>> ELSE (IF Head(s) = 1000 THEN <<233>> ELSE <<Head(s)>>) \o NFC(Tail(s))
\* only quotation mark and backslash are escaped
RECURSIVE Esc(_)
Esc(s) == IF s = <<>> THEN <<>>
          ELSE (IF Head(s) \in {34, 92} THEN <<92, Head(s)>> ELSE <<Head(s)>>) \o Esc(Tail(s))
Quoted(k) == <<34>> \o Esc(NFC(k)) \o <<34>>

RECURSIVE Less(_, _)     \* lexicographic order of code point sequences, a proper prefix first
Less(a, b) == IF a = <<>> THEN b # <<>>
              ELSE IF b = <<>> THEN FALSE
              ELSE IF Head(a) # Head(b) THEN Head(a) < Head(b)
              ELSE Less(Tail(a), Tail(b))

Init == members = <<>>
Next == /\ Len(members) < MaxKeys
        /\ \E k \in Keys : /\ \A i \in DOMAIN members : NFC(members[i]) # NFC(k)   \* keys stay distinct
                           /\ members' = Append(members, k)
Spec == Init /\ [][Next]_vars

\* sort positions 1..n by an order on the sort key of each member
RECURSIVE SortBy(_, _)
SortBy(S, key) == IF S = {} THEN <<>>
                  ELSE LET m == CHOOSE i \in S : \A j \in S \ {i} : Less(key[i], key[j])
                       IN <<m>> \o SortBy(S \ {m}, key)
Digits(i) == <<48 + i>>     \* member values are 1..MaxKeys
RECURSIVE Emit1(_, _)
Emit1(order, i) == IF i > Len(order) THEN <<>>
                   ELSE (IF i > 1 THEN <<44>> ELSE <<>>) \o Quoted(members[order[i]]) \o <<58>> \o Digits(order[i])
                        \o Emit1(order, i + 1)
Object(order) == <<123>> \o Emit1(order, 1) \o <<125>>

\* the definition
Canon == Object(SortBy(DOMAIN members, [i \in DOMAIN members |-> NFC(members[i])]))
\* the formatter
FormatterRun ==
  Object(SortBy(DOMAIN members, [i \in DOMAIN members |->
                   IF ByUnescaped THEN NFC(members[i]) ELSE Quoted(members[i])]))

\* C11
FormatterIsCanonical == FormatterRun = Canon
\* insertion order does not matter: the canonical form depends on the set of members only; every
\* state with the same member set in another order has its own check against the same definition

Emit == PrintT(<<"REPLAY", ToJson([members |-> members, canon |-> Canon])>>)
=============================================================================
