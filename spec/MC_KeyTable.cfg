SPECIFICATION Spec
CONSTANTS
  MaxKeys = 4
  Sites = {"root", "delegations"}
INVARIANTS ParseMeetsSpec Emit
CHECK_DEADLOCK FALSE
