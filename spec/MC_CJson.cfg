SPECIFICATION Spec
CONSTANTS
  MaxKeys = 2
  MaxKeyLen = 2
  ByUnescaped = TRUE
INVARIANTS FormatterIsCanonical
CHECK_DEADLOCK FALSE
