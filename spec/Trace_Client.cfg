SPECIFICATION TSpec
CONSTANTS
  Mode = "strict"
  LimRoot = 2
  LimTs = 2
  LimSn = 2
  LimTg = 2
  Unit = 4096
  Chunk = 0
  Slack = 0
  Shipped = {}
  CandRoot <- D2
  CandTs <- D1
  CandSn <- D2
  CandTg <- D2
  ShipRule <- DRule
  Limit <- TraceLimit
  MaxRootUpdates = 4
  MaxCycles = 1000
  Times = {0}
  ClockMoves = TRUE
  EnforceChoices = {TRUE, FALSE}
  Reads = TRUE
  MaxReads = 1000
  Chain0 <- EmptyChain
CONSTRAINT Progress
POSTCONDITION TraceAccepted
CHECK_DEADLOCK FALSE
