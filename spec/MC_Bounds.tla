------------------------------ MODULE MC_Bounds ------------------------------
(***************************************************************************)
(* Configuration of TufClient for the cycle-level part of C09: servers     *)
(* that answer any request with oversized or endless streams, an unbounded *)
(* chain of valid newer roots, every relation between file size, pinned    *)
(* length and configured limit.                                            *)
(***************************************************************************)
EXTENDS TufClient
CONSTANTS L,       \* the configured limit of every role, in units
          Lens,    \* lengths of served files, in units
          Spread   \* TRUE: a different limit for every role (root L+1, timestamp L, snapshot L+1, targets L+2),
                   \* so that a limit applied to the wrong role shows

R(v, len) == [k |-> "root", v |-> v, exp |-> 9, len |-> len, b |-> 1, signers |-> {9}, cons |-> FALSE,
              rk |-> {9}, rthr |-> 1, ts |-> <<1>>, tsthr |-> 1, sn |-> <<3>>, snthr |-> 1, tg |-> <<4>>, tgthr |-> 1]
MC_Shipped == {R(1, 1)}
MC_ShipRule(sh, mx) == TRUE
\* the chain of valid newer roots never ends
\* ... or the server answers the request for version n with the root of version n - 1 again (a mirror
\* that serves its latest root for versions it does not have): the walk ends there
MC_CandRoot(n, tr) == {R(n, len) : len \in Lens} \cup {[k |-> "absent"], [k |-> "endless"]}
                      \cup (IF n >= 2 THEN {R(n - 1, 1)} ELSE {})
Pins(v) == {[v |-> v, h |-> NoDoc, len |-> ll] : ll \in {0} \cup Lens}
MC_CandTs(r) == {[k |-> "ts", v |-> 1, exp |-> 9, len |-> len, b |-> 1, signers |-> {1}, pin |-> p] :
                   len \in Lens, p \in Pins(1)} \cup {[k |-> "endless"]}
MC_CandSn(r, ts) == {[k |-> "sn", v |-> 1, exp |-> 9, len |-> len, b |-> 1, signers |-> {3}, pin |-> p] :
                       len \in Lens, p \in Pins(1)} \cup {[k |-> "endless"]}
MC_CandTg(r, sn) == {[k |-> "tg", v |-> 1, exp |-> 9, len |-> len, b |-> 1, signers |-> {4}] : len \in Lens}
                    \cup {[k |-> "endless"]}
MC_Limit == IF Spread THEN [root |-> L + 1, ts |-> L, sn |-> L + 1, tg |-> L + 2]
            ELSE [root |-> L, ts |-> L, sn |-> L, tg |-> L]
NoChain == <<>>

\* legitimate files within their own bound are not refused for size
LegitNotRefused ==
  res = "MaxSize" /\ IsDoc(last.s) =>
     \/ last.ev = "root" /\ last.s.len > Limit.root
     \/ last.ev = "ts" /\ last.s.len > Limit.ts
     \/ last.ev = "sn" /\ last.s.len > SnBound(cur.ts)
     \/ last.ev = "tg" /\ last.s.len > TgBound(cur.sn)
=============================================================================
