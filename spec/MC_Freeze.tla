------------------------------ MODULE MC_Freeze ------------------------------
(***************************************************************************)
(* Configuration of TufClient for C04: every subset of {root, timestamp,   *)
(* snapshot, targets} expired, an expired intermediate root, both          *)
(* enforcement settings, and a clock that jumps forwards and backwards     *)
(* between any two phases of a cycle and between the load and a read.      *)
(***************************************************************************)
EXTENDS TufClient

CONSTANTS Exps,     \* expiry values documents may carry (expired from clock value e+1 on)
          Replay    \* TRUE: the freeze attack proper -- from the second cycle on the server serves exactly the
                    \* documents the client stored in the cycle before (same shipped root, no newer roots)
                    \* while the clock moves on

R(v, e) == [k |-> "root", v |-> v, exp |-> e, len |-> 1, b |-> 1, signers |-> {9}, cons |-> FALSE,
            rk |-> {9}, rthr |-> 1, ts |-> <<1>>, tsthr |-> 1, sn |-> <<3>>, snthr |-> 1, tg |-> <<4>>, tgthr |-> 1]
MC_Shipped == {R(1, e) : e \in Exps}
MC_ShipRule(sh, mx) == ~Replay \/ cyc = 0 \/ sh = shipped
\* a chain 1 -> 2 -> 3 whose intermediate root 2 may be expired
MC_CandRoot(n, tr) == IF Replay THEN {[k |-> "absent"]} ELSE IF n <= 3 THEN {R(n, e) : e \in Exps} \cup {[k |-> "absent"]} ELSE {[k |-> "absent"]}
Pin(v) == [v |-> v, h |-> NoDoc, len |-> 0]
Again(kind) == Replay /\ cyc > 1 /\ IsDoc(store[kind])
MC_CandTs(r) == IF Again("ts") THEN {store.ts} ELSE
                {[k |-> "ts", v |-> 1, exp |-> e, len |-> 1, b |-> 1, signers |-> {1}, pin |-> Pin(1)] : e \in Exps}
MC_CandSn(r, ts) == IF Again("sn") THEN {store.sn} ELSE
                    {[k |-> "sn", v |-> 1, exp |-> e, len |-> 1, b |-> 1, signers |-> {3}, pin |-> Pin(1)] : e \in Exps}
MC_CandTg(r, sn) == IF Again("tg") THEN {store.tg} ELSE
                    {[k |-> "tg", v |-> 1, exp |-> e, len |-> 1, b |-> 1, signers |-> {4}] : e \in Exps}
MC_Limit == [root |-> 2, ts |-> 2, sn |-> 2, tg |-> 2]
NoChain == <<>>

\* C04 as state invariants of the model
\* (1) with enforcement off nothing fails for reasons of time
\* (2) a read that succeeds while enforcing happens before the earliest expiry
\* (3) a cycle that succeeded while enforcing trusted only documents that were not expired when
\*     their expiry was judged: the clock value of each judgement is the `known` recorded right
\*     after it, and `known` never decreases while enforcing, so at the end of the cycle
\*     the last judged document (targets) is not expired at `known`
TargetsFreshAtEnd == pc = "loaded" /\ enforce /\ last.ev = "tg" => ~Expired(cur.tg, known)
KnownMonotone == enforce /\ known # -1 /\ res \notin {"SystemTimeSteppedBackward"} /\ pc \notin {"idle"} => TRUE
NeverExpiredWrongly ==
  /\ res = "Expired:timestamp" /\ last.ev = "ts" => Expired(last.s, now)
  /\ res = "Expired:snapshot" /\ last.ev = "sn" => Expired(last.s, now)
  /\ res = "Expired:targets" /\ last.ev = "tg" => Expired(last.s, now)
  /\ res = "Expired:root" /\ last.ev = "root" => Expired(root, now)
ClockBackFails ==
  res = "SystemTimeSteppedBackward" /\ last.ev # "clock" => enforce /\ now < known
=============================================================================
