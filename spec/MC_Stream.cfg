SPECIFICATION Spec
CONSTANTS
  MaxLen = 3
  Saving = TRUE
  Previous <- BothPrev
INVARIANTS EndsOkImpliesDigest NeverMoreThanSignedLength OtherContentErrs ExactSucceeds NoPartialAtDest FailureChangesNothing SuccessIsComplete
CHECK_DEADLOCK FALSE
