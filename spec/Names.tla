------------------------------- MODULE Names -------------------------------
(***************************************************************************)
(* Names that reach the file system (properties C08, C16).                 *)
(*                                                                         *)
(* Target names: tough/src/target_name.rs clean_name resolves a raw name   *)
(* as a Unix path below "/" (".." never climbs above the root), restores   *)
(* relativity, and rejects the degenerate results; save_target joins the   *)
(* resolved name to the canonical output directory and requires the parent *)
(* of the result to lie in or below that directory.                        *)
(*                                                                         *)
(* Role names: tough/src/lib.rs encode_filename percent-encodes every      *)
(* byte outside [A-Za-z0-9_.~-]; the file of a delegated role is           *)
(* [<version>.]<encoded>.json directly inside the metadata directory.      *)
(*                                                                         *)
(* A name is a sequence of characters, each a string of length 1 (or a     *)
(* multi-byte character).  "/" is the only separator on the target side.   *)
(***************************************************************************)
EXTENDS Naturals, Sequences, FiniteSets, TLC, Json

CONSTANTS Alphabet, MaxLen, Mode    \* Mode: "target" | "role"

VARIABLE name
vars == <<name>>

Init == name = <<>>
Next == Len(name) < MaxLen /\ \E c \in Alphabet : name' = Append(name, c)
Spec == Init /\ [][Next]_vars

-----------------------------------------------------------------------------
\* target names

\* split at "/": sequence of segments (each a sequence of characters), empty segments kept
RECURSIVE SplitFrom(_, _, _)
SplitFrom(s, i, cur) ==
  IF i > Len(s) THEN <<cur>>
  ELSE IF s[i] = "/" THEN <<cur>> \o SplitFrom(s, i + 1, <<>>)
  ELSE SplitFrom(s, i + 1, Append(cur, s[i]))
Split(s) == SplitFrom(s, 1, <<>>)

\* normalise below the root: "" and "." vanish, ".." removes the previous segment if there is one
RECURSIVE Norm(_, _, _)
Norm(segs, i, acc) ==
  IF i > Len(segs) THEN acc
  ELSE LET g == segs[i] IN
       IF g = <<>> \/ g = <<".">> THEN Norm(segs, i + 1, acc)
       ELSE IF g = <<".", ".">> THEN Norm(segs, i + 1, IF acc = <<>> THEN acc ELSE SubSeq(acc, 1, Len(acc) - 1))
       ELSE Norm(segs, i + 1, Append(acc, g))

RECURSIVE Join(_, _)
Join(segs, i) == IF i > Len(segs) THEN <<>>
                 ELSE (IF i > 1 THEN <<"/">> ELSE <<>>) \o segs[i] \o Join(segs, i + 1)

Absolute(s) == Len(s) > 0 /\ s[1] = "/"
\* result of TargetName::new: [ok, resolved] ; resolved keeps a leading "/" of the raw name
Resolve(s) ==
  IF s = <<".", ".">> \/ s = <<>> THEN [ok |-> FALSE, r |-> <<>>]
  ELSE LET segs == Norm(Split(s), 1, <<>>)
           body == Join(segs, 1)
           r == IF Absolute(s) THEN <<"/">> \o body ELSE body
       IN IF r = <<>> \/ r = <<"/">> THEN [ok |-> FALSE, r |-> r] ELSE [ok |-> TRUE, r |-> r]

\* save_target: outdir.join(resolved) replaces outdir when resolved is absolute; the parent of the
\* joined path must start with outdir.  The resolved name has no ".", ".." or empty segments, so a
\* relative one always stays inside.
\* With Prefix::Digest the file name is "<hex digest>." followed by the resolved name, which is
\* never absolute: an absolute resolved name then lands in a directory called "<hex digest>.".
\* a resolved name that begins with two separators (the URL parser takes a backslash for a slash) is a
\* network-path reference: joined to the base URL it names another authority, or no valid URL at all.  The
\* fetch may then fail (JoinUrl); if it succeeds, what is saved is digest-checked and lands inside.
\* (URL parsing first drops leading spaces and C0 control characters: "^" stands for U+0001)
RECURSIVE Trimmed(_)
Trimmed(r) == IF r # <<>> /\ r[1] \in {" ", "^"} THEN Trimmed(Tail(r)) ELSE r
Authority(r) == LET t == Trimmed(r) IN Len(t) >= 2 /\ t[1] \in {"/", "\\"} /\ t[2] \in {"/", "\\"}
SaveVerdict(s, digestPrefix) ==
  LET rv == Resolve(s) IN
  IF ~rv.ok THEN "invalid-name"
  ELSE IF Absolute(rv.r) /\ ~digestPrefix THEN "unsafe-path"
  ELSE IF Authority(rv.r) THEN "inside-or-no-url"
  ELSE "inside"

\* C08: whatever the name, nothing is written outside the output directory
NoDotSegments(r) == \A g \in {Split(r)[i] : i \in DOMAIN Split(r)} : g # <<".">> /\ g # <<".", ".">>
Confined == LET rv == Resolve(name) IN
            rv.ok /\ ~Absolute(rv.r) => NoDotSegments(rv.r) /\ \A i \in DOMAIN Split(rv.r) : Split(rv.r)[i] # <<>>

-----------------------------------------------------------------------------
\* role names
Unreserved == {"a", "F", "2", "_", ".", "~", "-"}     \* members of the alphabet that are not encoded
\* "^" stands for U+0001, "`" for U+0009 (TAB, which URL parsing silently drops from its input) and
\* "@" for U+00E9 (two UTF-8 bytes): the harness substitutes them
Hex == [c \in {"/", "\\", "%", "?", "#", ":", " ", "^", "`", "@"} |->
          CASE c = "/" -> <<"%", "2", "F">> [] c = "\\" -> <<"%", "5", "C">> [] c = "%" -> <<"%", "2", "5">>
            [] c = "?" -> <<"%", "3", "F">> [] c = "#" -> <<"%", "2", "3">> [] c = ":" -> <<"%", "3", "A">>
            [] c = " " -> <<"%", "2", "0">> [] c = "^" -> <<"%", "0", "1">> [] c = "`" -> <<"%", "0", "9">>
            [] c = "@" -> <<"%", "C", "3", "%", "A", "9">>]
RECURSIVE Encode(_)
Encode(s) == IF s = <<>> THEN <<>>
             ELSE (IF s[1] \in Unreserved THEN <<s[1]>> ELSE Hex[s[1]]) \o Encode(Tail(s))
RoleFile(s) == Encode(s) \o <<".", "j", "s", "o", "n">>

\* C16: the file name is a plain entry: no separator, and not "." or ".." (it always ends in .json)
PlainEntry == \A i \in DOMAIN RoleFile(name) : RoleFile(name)[i] # "/"
\* Encode is injective: checked by the harness over all emitted pairs (distinct names, distinct files)

-----------------------------------------------------------------------------
TargetAlphabet == {"a", ".", "/", "\\", " ", "@", "^"}
RoleAlphabet == {"a", "F", "2", "/", "\\", ".", "%", "?", "#", ":", " ", "^", "`", "@"}
RECURSIVE Flat(_)
Flat(s) == IF s = <<>> THEN "" ELSE s[1] \o Flat(Tail(s))
Emit == IF Mode = "target"
        THEN PrintT(<<"REPLAY", ToJson([name |-> Flat(name), ok |-> Resolve(name).ok,
                                        resolved |-> Flat(Resolve(name).r), verdict |-> SaveVerdict(name, FALSE),
                                        verdictDigest |-> SaveVerdict(name, TRUE)])>>)
        ELSE PrintT(<<"REPLAY", ToJson([name |-> Flat(name), file |-> Flat(RoleFile(name))])>>)
=============================================================================
