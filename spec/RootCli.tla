------------------------------ MODULE RootCli ------------------------------
(***************************************************************************)
(* Sequences of `tuftool root` subcommands on one root.json                *)
(* (tuftool/src/root.rs), property C20.                                    *)
(*                                                                         *)
(* State: the file -- version, key table, per-role key ids and threshold,  *)
(* signatures (each made over the current content: every content-changing  *)
(* subcommand clears them) -- and the result of the last command.  The     *)
(* initial state is the file after `init` and `set-threshold <role> 1` for *)
(* the four roles.  A second, finished root (root keys 1 and 2, threshold  *)
(* 1, signed by key 2) is available for --cross-sign.                      *)
(*                                                                         *)
(* CountOwnKeysOnly = TRUE : `sign` compares the root threshold with the   *)
(*    number of signatures made by keys the file lists for its root role   *)
(* CountOwnKeysOnly = FALSE: with the number of signature entries          *)
(***************************************************************************)
EXTENDS Naturals, Sequences, FiniteSets, TLC, Json

CONSTANTS KeyIds, MaxCmds, CountOwnKeysOnly, CrossAppends,
          WriteOnlyNew   \* variant (witness generation only): the threshold is judged on the merged signature
                         \* entries but the file is written with the entries made in this invocation only
Roles == {"root", "timestamp", "snapshot", "targets"}
CrossRootKeys == {1, 2}   \* the other root's root role: keys 1 and 2, threshold 1; its key table: {1, 2}
CrossSigs == {2}          \* the other root is signed by key 2 (over ITS content)

VARIABLES
  version, keys, rolekeys, thr, sigs,   \* the file (sigs: entries that are valid over the current content)
  stale,     \* key ids of signature entries in the file that were made over other content
  last,      \* [cmd, ok] of the last command
  cmds       \* the sequence of commands so far (with their outcome)
vars == <<version, keys, rolekeys, thr, sigs, stale, last, cmds>>
view == <<version, keys, rolekeys, thr, sigs, stale, last, Len(cmds)>>

Init == /\ version = 1 /\ keys = {} /\ rolekeys = [r \in Roles |-> {}] /\ thr = [r \in Roles |-> 1]
        /\ sigs = {} /\ stale = {} /\ last = [cmd |-> "init", ok |-> TRUE, plain |-> FALSE] /\ cmds = <<>>

Can == Len(cmds) < MaxCmds
Done(c, ok, plain) == /\ last' = [cmd |-> c.cmd, ok |-> ok, plain |-> plain]
                      /\ cmds' = Append(cmds, [c EXCEPT !.ok = ok])

AddKey(k, rs) ==
  LET c == [cmd |-> "add-key", key |-> k, roles |-> rs, ok |-> TRUE] IN
  /\ Can /\ keys' = keys \cup {k}
  /\ rolekeys' = [r \in Roles |-> IF r \in rs THEN rolekeys[r] \cup {k} ELSE rolekeys[r]]
  /\ sigs' = {} /\ stale' = {} /\ Done(c, TRUE, FALSE) /\ UNCHANGED <<version, thr>>
\* remove-key <id> [role]: from one role's list, or from every list and the table
RemoveKey(k, r) ==
  LET c == [cmd |-> "remove-key", key |-> k, role |-> r, ok |-> TRUE] IN
  /\ Can
  /\ IF r = "all"
     THEN /\ keys' = keys \ {k} /\ rolekeys' = [x \in Roles |-> rolekeys[x] \ {k}]
     ELSE /\ rolekeys' = [rolekeys EXCEPT ![r] = @ \ {k}] /\ UNCHANGED keys
  /\ sigs' = {} /\ stale' = {} /\ Done(c, TRUE, FALSE) /\ UNCHANGED <<version, thr>>
SetThreshold(r, n) ==
  LET c == [cmd |-> "set-threshold", role |-> r, n |-> n, ok |-> TRUE] IN
  /\ Can /\ thr' = [thr EXCEPT ![r] = n] /\ sigs' = {} /\ stale' = {} /\ Done(c, TRUE, FALSE)
  /\ UNCHANGED <<version, keys, rolekeys>>
BumpVersion ==
  LET c == [cmd |-> "bump-version", ok |-> TRUE] IN
  /\ Can /\ version' = version + 1 /\ sigs' = {} /\ stale' = {} /\ Done(c, TRUE, FALSE) /\ UNCHANGED <<keys, rolekeys, thr>>
SetVersion(n) ==
  LET c == [cmd |-> "set-version", n |-> n, ok |-> TRUE] IN
  /\ Can /\ version' = n /\ sigs' = {} /\ stale' = {} /\ Done(c, TRUE, FALSE) /\ UNCHANGED <<keys, rolekeys, thr>>
Expire ==
  LET c == [cmd |-> "expire", ok |-> TRUE] IN
  /\ Can /\ sigs' = {} /\ stale' = {} /\ Done(c, TRUE, FALSE) /\ UNCHANGED <<version, keys, rolekeys, thr>>

\* sign -k ... [--cross-sign other] [-i]
Sign(ks, cross, ign) ==
  LET c == [cmd |-> "sign", keys |-> ks, cross |-> cross, ignore |-> ign, ok |-> TRUE]
      holderTable == IF cross THEN CrossRootKeys ELSE keys
      holderRoot  == IF cross THEN CrossRootKeys ELSE rolekeys["root"]
      usable  == ks \cap holderTable            \* get_root_keys: must not be empty
      newsigs == usable \cap holderRoot         \* SignedRole::new signs with the keys the holder lists for root
      appendOther == cross /\ CrossAppends
      allsigs == newsigs \cup (IF appendOther THEN {} ELSE sigs)          \* add_old_signatures
      \* an old entry by a key that has just signed is not added again
      allstale == (IF appendOther THEN CrossSigs ELSE stale) \ allsigs
      entries == allsigs \cup allstale
      unstable == \E r \in Roles : thr[r] > Cardinality(rolekeys[r])
      counted == IF CountOwnKeysOnly THEN entries \cap rolekeys["root"] ELSE entries
      short == thr["root"] > Cardinality(counted)
      ok == usable # {} /\ (ign \/ (~unstable /\ ~short))
  IN /\ Can
     /\ sigs' = IF ok THEN (IF WriteOnlyNew THEN newsigs ELSE allsigs) ELSE sigs
     /\ stale' = IF ok THEN allstale ELSE stale
     /\ Done(c, ok, ~cross /\ ~ign)
     /\ UNCHANGED <<version, keys, rolekeys, thr>>

Next ==
  \/ \E k \in KeyIds, rs \in {{"root"}, {"timestamp"}, Roles} : AddKey(k, rs)
  \/ \E k \in KeyIds, r \in {"root", "all"} : RemoveKey(k, r)
  \/ \E r \in {"root", "timestamp"}, n \in 1..2 : SetThreshold(r, n)
  \/ BumpVersion \/ SetVersion(7) \/ Expire
  \/ \E ks \in (SUBSET KeyIds) \ {{}}, cross \in BOOLEAN, ign \in BOOLEAN : Sign(ks, cross, ign)
Spec == Init /\ [][Next]_vars

-----------------------------------------------------------------------------
\* C20
\* a successful plain sign leaves a root that verifies under its own root keys and threshold:
\* valid signatures are those by keys that are in the key table and listed for the root role
SelfVerifies == Cardinality(sigs \cap rolekeys["root"] \cap keys) >= thr["root"]
PlainSignSelfVerifies == last.cmd = "sign" /\ last.ok /\ last.plain => SelfVerifies
\* every content-changing subcommand has removed all signatures
EditsClearSigs == last.cmd \notin {"sign", "init"} /\ last.ok => sigs = {} /\ stale = {}
\* the code never leaves an entry made over other content (checked with CrossAppends = FALSE)
NoStaleEntries == ~CrossAppends => stale = {}
\* signatures only ever come from keys that a sign command was given
FileState == [version |-> version, keys |-> keys, rolekeys |-> rolekeys, thr |-> thr, sigs |-> sigs \cup stale]

\* witnesses: command sequences on which the other counting rule breaks the property
EmitBad == ~PlainSignSelfVerifies => PrintT(<<"REPLAY", ToJson([cmds |-> cmds, final |-> FileState, witness |-> TRUE])>>)
Emit == Len(cmds) = MaxCmds => PrintT(<<"REPLAY", ToJson([cmds |-> cmds, final |-> FileState])>>)
=============================================================================
