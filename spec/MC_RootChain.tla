---------------------------- MODULE MC_RootChain ----------------------------
(***************************************************************************)
(* Configuration of TufClient for C02: every answer a server can give to   *)
(* the requests for newer roots -- any key configuration, any set of valid *)
(* signers, a version that is lower than, equal to, the expected one or    *)
(* skips ahead, unparsable, oversized, endless, transport failures -- and  *)
(* top-level metadata signed by the online keys of any configuration.      *)
(***************************************************************************)
EXTENDS TufClient

CONSTANTS CfgIds,     \* key configurations roots may carry
          SigSets,    \* sets of root keys that may have validly signed a served root
          MaxRootV,   \* no root beyond this version is published
          Cons

\* root keys 1, 2, 13 (13 is an RSA key in the harness: algorithm change); online keys A = 4,5,6; B = 7,8,10
KeyCfg == [
  c1 |-> [rk |-> {1},        rthr |-> 1, ts |-> <<4>>, sn |-> <<5>>, tg |-> <<6>>],
  c2 |-> [rk |-> {2},        rthr |-> 1, ts |-> <<7>>, sn |-> <<8>>, tg |-> <<10>>],
  c3 |-> [rk |-> {1, 2},     rthr |-> 2, ts |-> <<4>>, sn |-> <<5>>, tg |-> <<6>>],
  c4 |-> [rk |-> {1, 2, 13}, rthr |-> 1, ts |-> <<4, 7>>, sn |-> <<5>>, tg |-> <<6>>],
  \* the root keys of c3 with threshold 1: a hop c5 -> c3 keeps the keys and raises the threshold
  c5 |-> [rk |-> {1, 2},     rthr |-> 1, ts |-> <<4>>, sn |-> <<5>>, tg |-> <<6>>] ]

MkRoot(v, c, S, len) ==
  [k |-> "root", v |-> v, exp |-> 9, len |-> len, b |-> 1, signers |-> S, cons |-> Cons,
   rk |-> KeyCfg[c].rk, rthr |-> KeyCfg[c].rthr,
   ts |-> KeyCfg[c].ts, tsthr |-> 1, sn |-> KeyCfg[c].sn, snthr |-> 1, tg |-> KeyCfg[c].tg, tgthr |-> 1]

MC_Shipped == {MkRoot(1, c, S, 1) : c \in CfgIds, S \in SigSets}
MC_ShipRule(sh, mx) == TRUE

Others == {[k |-> "absent"], [k |-> "fetcherr"], [k |-> "streamerr"], [k |-> "endless"],
           [k |-> "garbage", len |-> 1]}
MC_CandRoot(n, tr) ==
  IF n > MaxRootV THEN {[k |-> "absent"]}
  ELSE {MkRoot(v, c, S, 1) : v \in {n - 1, n, n + 1} \ {0}, c \in CfgIds, S \in SigSets}
       \cup {MkRoot(n, c, KeyCfg[c].rk \cup tr.rk, 3) : c \in CfgIds}     \* valid but oversized
       \cup Others

Pin(v) == [v |-> v, h |-> NoDoc, len |-> 0]
\* top-level metadata signed by the online keys of any configuration (keys of other epochs)
MC_CandTs(r) == {[k |-> "ts", v |-> 1, exp |-> 9, len |-> 1, b |-> 1,
                  signers |-> Range(KeyCfg[c].ts), pin |-> Pin(1)] : c \in CfgIds}
MC_CandSn(r, ts) == {[k |-> "sn", v |-> 1, exp |-> 9, len |-> 1, b |-> 1,
                      signers |-> Range(KeyCfg[c].sn), pin |-> Pin(1)] : c \in CfgIds}
MC_CandTg(r, sn) == {[k |-> "tg", v |-> 1, exp |-> 9, len |-> 1, b |-> 1,
                      signers |-> Range(KeyCfg[c].tg)] : c \in CfgIds}
MC_Limit == [root |-> 2, ts |-> 2, sn |-> 2, tg |-> 2]
NoChain == <<>>
AllSigSets == SUBSET {1, 2, 13}
FewSigSets == {{}, {1}, {2}, {1, 2}}

\* C02: a shipped root that does not verify under its own keys is refused
ShippedMustSelfVerify ==
  cyc > 0 /\ ~Verifies(shipped.signers, shipped.rk, shipped.rthr) => res = "VerifyTrustedMetadata" /\ reqs = <<>>
\* the walk stops at the first version that is not available
StopsAtGap == \A i \in DOMAIN hist : hist[i].ev = "root" /\ hist[i].s.k = "absent" =>
                 \A j \in DOMAIN hist : j > i => hist[j].ev # "root"
=============================================================================
