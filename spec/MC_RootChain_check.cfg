SPECIFICATION Spec
CONSTANTS
  CfgIds = {"c1", "c2", "c3", "c4"}
  SigSets <- AllSigSets
  MaxRootV = 4
  Cons = FALSE
  MaxCycles = 1
  MaxRootUpdates = 4
  Times = {0}
  ClockMoves = FALSE
  EnforceChoices = {TRUE}
  Reads = FALSE
  MaxReads = 0
  Shipped <- MC_Shipped
  ShipRule <- MC_ShipRule
  CandRoot <- MC_CandRoot
  CandTs <- MC_CandTs
  CandSn <- MC_CandSn
  CandTg <- MC_CandTg
  Limit <- MC_Limit
  Chain0 <- NoChain
VIEW view
INVARIANTS WalkDoublySigned WalkEndsAtRoot NeverBelowShipped RootReqsConsecutive RootRequestsBounded TrustedVerified ShippedMustSelfVerify RequestsBounded SizesBounded
CHECK_DEADLOCK FALSE
