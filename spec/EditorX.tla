------------------------------ MODULE EditorX ------------------------------
(***************************************************************************)
(* The cross-party flow of the repository editor (last sentence of C10):   *)
(* RepositoryEditor::update_delegated_targets replaces an existing         *)
(* delegated role by metadata supplied by the role's holder.               *)
(*                                                                         *)
(* One state = one case: the delegating role authorizes Keys with          *)
(* threshold thr, holds the role at version cur; the incoming document has *)
(* version inc and valid signatures by `signers` (a key may sign twice).   *)
(***************************************************************************)
EXTENDS Naturals, FiniteSets, TLC, Json

Keys == {110, 111}
Others == {112}
VARIABLES thr, cur, inc, signers, twice
vars == <<thr, cur, inc, signers, twice>>
Init == /\ thr \in 1..2 /\ cur \in 1..2 /\ inc \in 1..3
        /\ signers \in SUBSET (Keys \cup Others) /\ twice \in BOOLEAN
        /\ (twice => signers # {})
Next == UNCHANGED vars
Spec == Init /\ [][Next]_vars

\* the property: replaced only if a threshold of DISTINCT authorized keys signed and the version
\* is not lower
Authorized == Cardinality(signers \cap Keys) >= thr /\ inc >= cur
\* the code: KeyHolder::verify_role (Delegations::verify_role counts distinct key ids), then the
\* version comparison
AlgoAccept == Cardinality(signers \cap Keys) >= thr /\ inc >= cur
IncomingOnlyIfAuthorized == AlgoAccept = Authorized
Emit == PrintT(<<"REPLAY", ToJson([thr |-> thr, cur |-> cur, inc |-> inc, signers |-> signers, twice |-> twice,
                                   accept |-> Authorized])>>)
=============================================================================
