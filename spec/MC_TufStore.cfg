SPECIFICATION Spec
CONSTANTS
  Atomic = TRUE
  Old = 2
  New = 3
  Lower = 1
INVARIANTS RollbackSurvives NoLockout NeverTorn
CHECK_DEADLOCK FALSE
