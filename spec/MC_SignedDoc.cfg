SPECIFICATION Spec
CONSTANTS
  Classes = {"signed", "root.roles[r]", "root.keys[k]", "root.keys[k].keyval", "meta[f]", "meta[f].hashes", "targets[t]", "targets[t].hashes", "targets[t].custom", "delegations", "delegations.keys[k]", "delegations.keys[k].keyval", "delegations.roles[i]", "array"}
  Dropped = {"delegations", "delegations.roles[i]"}
INVARIANTS AcceptedMeansSigned AlterationsRejected InsertRejectedOrDropped HarmlessAccepted ForeignMembersVerify ForeignAtDroppedRejected Emit
CHECK_DEADLOCK FALSE
