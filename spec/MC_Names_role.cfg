SPECIFICATION Spec
CONSTANTS
  Alphabet <- RoleAlphabet
  MaxLen = 2
  Mode = "role"
INVARIANTS PlainEntry Emit
CHECK_DEADLOCK FALSE
