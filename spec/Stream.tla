------------------------------- MODULE Stream -------------------------------
(***************************************************************************)
(* Reading and saving a target (properties C06, C08).                      *)
(*                                                                         *)
(* Pipeline of Repository::read_target (tough/src/lib.rs, cache.rs,        *)
(* fetch.rs, io.rs): transport stream -> max_size_adapter(signed length)   *)
(* -> DigestAdapter(signed sha256) -> caller.  save_target (lib.rs) puts a *)
(* consumer behind it that writes every item to a temporary file next to   *)
(* the destination and renames it into place only after the stream ended   *)
(* without error.  An observer may look at the destination between any two *)
(* steps.                                                                  *)
(*                                                                         *)
(* Content is a sequence of abstract units; the digest is the identity.    *)
(***************************************************************************)
EXTENDS Naturals, Sequences, FiniteSets, TLC, Json

CONSTANTS MaxLen,      \* longest signed content, in units
          Saving,      \* TRUE: the consumer is save_target; FALSE: a caller that collects the items
          Previous     \* possible previous states of the destination: subset of {NoFile, OldFile}

Signed(n) == [j \in 1..n |-> j]                  \* the signed content of length n: <<1, .., n>>
\* what the server sends instead (as one sequence of units, before chunking)
Variants(n) ==
  {[kind |-> "exact", data |-> Signed(n)]}
  \cup {[kind |-> "flip", data |-> [Signed(n) EXCEPT ![p] = 90 + p]] : p \in 1..n}
  \cup {[kind |-> "truncate", data |-> SubSeq(Signed(n), 1, p)] : p \in 0..(n - 1)}
  \cup {[kind |-> "extend", data |-> Signed(n) \o [j \in 1..e |-> 80 + j]] : e \in 1..2}
  \cup {[kind |-> "other", data |-> <<70, 71>>]}                 \* another signed target's content
\* chunkings: every way of cutting a sequence into non-empty consecutive pieces
RECURSIVE Cuts(_)
Cuts(s) == IF s = <<>> THEN {<<>>}
           ELSE UNION {{<<SubSeq(s, 1, p)>> \o rest : rest \in Cuts(SubSeq(s, p + 1, Len(s)))} : p \in 1..Len(s)}

VARIABLES
  n,          \* signed length
  kind,       \* which corruption
  full,       \* everything the transport will deliver: sequence of items
              \*   [k |-> "data", u |-> units] | [k |-> "err"] | [k |-> "endless"]
  script,     \* what it still has to deliver
  size,       \* bytes counted by max_size_adapter
  hashed,     \* units fed to the digest so far
  delivered,  \* units handed to the caller so far
  st,         \* "running" | "ok" | "err"
  cls,        \* error class when st = "err"
  tmp,        \* save_target: the temporary file, [k |-> "none"] or [k |-> "data", u |-> units]
  dest,       \* the destination path: [k |-> "none"] | [k |-> "prev"] | [k |-> "data", u |-> units]
  prev,       \* what was at the destination before
  seenBad     \* an observer saw partial or unverified content at the destination
vars == <<n, kind, full, script, size, hashed, delivered, st, cls, tmp, dest, prev, seenBad>>

None == [k |-> "none"]
NoFile == [k |-> "none"]
OldFile == [k |-> "prev"]
Data(u) == [k |-> "data", u |-> u]
Items(c) == [j \in DOMAIN c |-> Data(c[j])]

Init ==
  /\ n \in 0..MaxLen
  /\ \E v \in Variants(n) : \E c \in Cuts(v.data) :
        \/ kind = v.kind /\ full = Items(c)
        \* a transport error, or data without end, after k chunks
        \/ \E k \in 0..Len(c), f \in {"err", "endless"} :
              kind = f /\ full = Items(SubSeq(c, 1, k)) \o <<[k |-> f]>>
  /\ script = full
  /\ size = 0 /\ hashed = <<>> /\ delivered = <<>> /\ st = "running" /\ cls = "none"
  /\ tmp = (IF Saving THEN Data(<<>>) ELSE None)
  /\ prev \in Previous /\ dest = prev /\ seenBad = FALSE

\* the caller polls once
Poll ==
  /\ st = "running"
  /\ IF script = <<>>
     THEN \* end of the transport stream: the digest decides (io.rs DigestAdapter, Ready(None))
          /\ IF hashed = Signed(n)
             THEN /\ st' = "ok" /\ cls' = "none"
                  /\ dest' = IF Saving THEN tmp ELSE dest           \* persist = rename
                  /\ tmp' = None
             ELSE /\ st' = "err" /\ cls' = "HashMismatch"
                  /\ tmp' = None /\ UNCHANGED dest                   \* temp file removed on drop
          /\ UNCHANGED <<script, size, hashed, delivered>>
     ELSE LET item == Head(script) IN
          IF item.k = "err"
          THEN /\ st' = "err" /\ cls' = "Transport" /\ tmp' = None
               /\ script' = Tail(script) /\ UNCHANGED <<size, hashed, delivered, dest>>
          ELSE LET chunk == IF item.k = "endless" THEN <<60>> ELSE item.u
                   sz == size + Len(chunk)
               IN /\ size' = sz
                  /\ script' = IF item.k = "endless" THEN script ELSE Tail(script)
                  /\ IF sz > n                                       \* max_size_adapter
                     THEN /\ st' = "err" /\ cls' = "MaxSize" /\ tmp' = None
                          /\ UNCHANGED <<hashed, delivered, dest>>
                     ELSE /\ hashed' = hashed \o chunk /\ delivered' = delivered \o chunk
                          /\ tmp' = IF Saving THEN Data(tmp.u \o chunk) ELSE tmp
                          /\ UNCHANGED <<st, cls, dest>>
  /\ UNCHANGED <<n, kind, full, prev, seenBad>>

\* an observer inspects the destination path between two steps
Observe ==
  /\ Saving /\ st = "running"
  /\ seenBad' = (seenBad \/ (dest # prev))
  /\ UNCHANGED <<n, kind, full, script, size, hashed, delivered, st, cls, tmp, dest, prev>>

Next == Poll \/ Observe
Spec == Init /\ [][Next]_vars

-----------------------------------------------------------------------------
\* C06
EndsOkImpliesDigest == st = "ok" => delivered = Signed(n)
NeverMoreThanSignedLength == Len(delivered) <= n
OtherContentErrs == st # "running" /\ kind # "exact" => st = "err"
ExactSucceeds == st # "running" /\ kind = "exact" => st = "ok"
\* C08
NoPartialAtDest == ~seenBad /\ (st = "running" => dest = prev)
FailureChangesNothing == st = "err" => dest = prev /\ tmp = None
SuccessIsComplete == Saving /\ st = "ok" => dest = Data(Signed(n)) /\ tmp = None

BothPrev == {NoFile, OldFile}
OnlyNone == {NoFile}
Done == st # "running"
Emit == Done => PrintT(<<"REPLAY", ToJson([n |-> n, kind |-> kind, full |-> full, st |-> st, cls |-> cls,
                                           delivered |-> Len(delivered), prev |-> prev.k])>>)
=============================================================================
