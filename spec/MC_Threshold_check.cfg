SPECIFICATION Spec
CONSTANTS
  MaxLen = 5
  MaxKeys = 4
  MaxThr = 4
  Sites = {"root-self", "deleg1"}
  DelegDedup = TRUE
INVARIANTS AlgoMeetsSpec CountIsDistinct
CHECK_DEADLOCK FALSE
