SPECIFICATION Spec
INVARIANTS IncomingOnlyIfAuthorized Emit
CHECK_DEADLOCK FALSE
