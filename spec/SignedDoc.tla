----------------------------- MODULE SignedDoc -----------------------------
(***************************************************************************)
(* What a signature binds (property C12).                                  *)
(*                                                                         *)
(* The client verifies a signature over the canonical re-serialisation of  *)
(* the PARSED document (tough/src/schema/verify.rs), so what is verified   *)
(* is what is used.  A document is abstracted to the set of its members,   *)
(* each at an object level (a position class).  Parsing keeps the members  *)
(* of every class that has a catch-all map (the `_extra` fields of         *)
(* schema/mod.rs) and drops unknown members of the classes in Dropped.     *)
(*                                                                         *)
(* Cases: a validly signed document; one mutation of it with the original  *)
(* signatures; or a document of another implementation carrying a foreign  *)
(* member, signed over its full content.                                   *)
(***************************************************************************)
EXTENDS Naturals, FiniteSets, TLC, Json

CONSTANTS Classes,    \* object levels of the signed portion
          Dropped     \* classes whose unknown members the parser does not keep

\* "respell": the same JSON value in another spelling of its strings (escape sequences)
Mutations == {"change", "delete", "insert", "reorder", "reformat", "respell", "extra-signature", "type-tag", "role-swap", "foreign"}

VARIABLES cls, mut
vars == <<cls, mut>>
Init == cls \in Classes /\ mut \in Mutations
Next == UNCHANGED vars
Spec == Init /\ [][Next]_vars

\* members: <<class, what>>; "known" members exist at every class in the original
Original == {<<c, "known">> : c \in Classes} \cup {<<"tag", "own-role">>}
Known(m) == m[2] \in {"known", "changed", "own-role", "other-role"}
Parse(doc) == {m \in doc : Known(m) \/ m[1] \notin Dropped}     \* unknown members of Dropped classes vanish
Reserialise(doc) == {IF m[1] = "tag" THEN <<"tag", "own-role">> ELSE m : m \in Parse(doc)}   \* tag from the Rust type

\* what is served, and the content the signatures were made over
Served ==
  CASE mut = "change"  -> (Original \ {<<cls, "known">>}) \cup {<<cls, "changed">>}
    [] mut = "delete"  -> Original \ {<<cls, "known">>}
    [] mut = "insert"  -> Original \cup {<<cls, "inserted">>}
    [] mut = "type-tag"  -> (Original \ {<<"tag", "own-role">>}) \cup {<<"tag", "other-role">>}
    [] mut = "role-swap" -> (Original \ {<<"tag", "own-role">>}) \cup {<<"tag", "other-role">>}
    [] mut = "foreign" -> Original \cup {<<cls, "foreign">>}
    [] OTHER -> Original            \* re-ordering, re-formatting, re-spelling, extra signature entry: same content
SignedOver ==
  CASE mut = "foreign"   -> Served                     \* the other implementation signed everything
    [] mut = "role-swap" -> Served                     \* validly signed, but for the other role
    [] OTHER -> Original

Accept == Reserialise(Served) = SignedOver
Used == Reserialise(Served)

\* C12
AcceptedMeansSigned == Accept => Used = SignedOver
AlterationsRejected ==
  mut \in {"change", "delete", "role-swap"} => ~Accept
\* an inserted unknown member, or a rewritten role tag, is either refused or not used at all (the
\* tag is emitted from the Rust type, not copied from the input)
InsertRejectedOrDropped == mut \in {"insert", "type-tag"} => (~Accept \/ Used = Original)
HarmlessAccepted == mut \in {"reorder", "reformat", "respell", "extra-signature"} => Accept
ForeignMembersVerify == mut = "foreign" /\ cls \notin Dropped => Accept
\* known finding F11: the classes in Dropped reject validly signed foreign documents
ForeignAtDroppedRejected == mut = "foreign" /\ cls \in Dropped => ~Accept

Emit == PrintT(<<"REPLAY", ToJson([cls |-> cls, mut |-> mut, accept |-> Accept,
                                   harmless |-> (Accept /\ Used = Original)])>>)
=============================================================================
