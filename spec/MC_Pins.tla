------------------------------- MODULE MC_Pins -------------------------------
(***************************************************************************)
(* Configuration of TufClient for C05: individually valid, correctly       *)
(* signed files of several repository states (versions), in two byte-level *)
(* spellings each, with digests / lengths present or absent in the pinning *)
(* document, in every combination.                                         *)
(***************************************************************************)
EXTENDS TufClient
CONSTANTS V, Cons

TheRoot == [k |-> "root", v |-> 1, exp |-> 9, len |-> 1, b |-> 1, signers |-> {9}, cons |-> Cons,
            rk |-> {9}, rthr |-> 1, ts |-> <<1>>, tsthr |-> 1, sn |-> <<3>>, snthr |-> 1, tg |-> <<4>>, tgthr |-> 1]
MC_Shipped == {TheRoot}
MC_ShipRule(sh, mx) == TRUE
MC_CandRoot(n, tr) == {[k |-> "absent"]}

TG(v, b, len) == [k |-> "tg", v |-> v, exp |-> 9, len |-> len, b |-> b, signers |-> {4}]
TgPins == UNION {{[v |-> tv, h |-> hh, len |-> ll] : hh \in {NoDoc, TG(tv, 1, 1)}, ll \in {0, 1}} : tv \in 0..V}
SN(v, b, len, p) == [k |-> "sn", v |-> v, exp |-> 9, len |-> len, b |-> b, signers |-> {3}, pin |-> p]
P0 == [v |-> 1, h |-> NoDoc, len |-> 0]
SnPins == UNION {{[v |-> sv, h |-> hh, len |-> ll] : hh \in {NoDoc, SN(sv, 1, 1, P0)}, ll \in {0, 1}} : sv \in 1..V}
MC_CandTs(r) == {[k |-> "ts", v |-> 1, exp |-> 9, len |-> 1, b |-> 1, signers |-> {1}, pin |-> p] : p \in SnPins}
\* every snapshot file the repository ever published, in both spellings, short and long
MC_CandSn(r, ts) == {SN(v, b, len, p) : v \in 1..V, b \in 1..2, len \in 1..2,
                                        p \in {q \in TgPins : q.v # 0 /\ q.len = 0} \cup {P0}}
                    \cup {SN(ts.pin.v, 1, 1, p) : p \in TgPins}
MC_CandTg(r, sn) == {TG(v, b, len) : v \in 1..V, b \in 1..2, len \in 1..2}
MC_Limit == [root |-> 2, ts |-> 2, sn |-> 2, tg |-> 2]
NoChain == <<>>
=============================================================================
