---------------------------- MODULE EditorUpdate ----------------------------
(***************************************************************************)
(* Updating an existing repository (property C17):                          *)
(* RepositoryEditor::from_repo, new versions and expirations, 0..n added   *)
(* targets, sign, write.  One state = one input repository shape and one   *)
(* update program.  What the editor carries over is transcribed from       *)
(* editor/mod.rs (targets / snapshot / timestamp take `_extra` from the    *)
(* loaded documents; build_targets, build_snapshot, build_timestamp put it *)
(* back) and editor/targets.rs (existing targets and delegations).         *)
(*   SnapshotExtraKept = FALSE models build_snapshot forgetting to assign  *)
(*   the carried-over members.                                             *)
(***************************************************************************)
EXTENDS Naturals, FiniteSets, TLC, Json

CONSTANTS MaxAdd, SnapshotExtraKept

\* "delegation": a delegated role d with its own signed file; "nested": d delegates to a second-level
\* role e; "delegated-extra": unknown top-level members in d (and e)
Features == {"targets-extra", "snapshot-extra", "timestamp-extra", "custom", "delegation", "nested", "delegated-extra"}
Shape(S) == ("nested" \in S => "delegation" \in S) /\ ("delegated-extra" \in S => "delegation" \in S)
VARIABLES has, nadd
vars == <<has, nadd>>
Init == has \in {S \in SUBSET Features : Shape(S)} /\ nadd \in 0..MaxAdd
Next == UNCHANGED vars
Spec == Init /\ [][Next]_vars

\* what survives the update, per the code
Kept == {f \in has : f # "snapshot-extra" \/ SnapshotExtraKept}
\* C17
Preserved == Kept = has
Emit == PrintT(<<"REPLAY", ToJson([has |-> has, nadd |-> nadd, kept |-> Kept])>>)
=============================================================================
