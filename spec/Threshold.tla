------------------------------ MODULE Threshold ------------------------------
(***************************************************************************)
(* Signature lists and threshold counting (property C01).                  *)
(*                                                                         *)
(* A verification site holds: a key table, the list of key ids authorized  *)
(* for the role, a threshold, and receives a document with a signature     *)
(* list.  The state of this module is one such (site, configuration, list) *)
(* case; Next extends the list by one entry, so that the reachable states  *)
(* are exactly the cases within the bounds, each evaluated by the          *)
(* invariants.                                                             *)
(*                                                                         *)
(* SpecCount is the property: the number of DISTINCT authorized keys,      *)
(* present in the key table, that made a valid signature over exactly this *)
(* content.  AlgoRoot / AlgoDeleg transcribe the two loops of              *)
(* tough/src/schema/verify.rs (Root::verify_role, Delegations::verify_role)*)
(***************************************************************************)
EXTENDS Naturals, Sequences, FiniteSets, TLC, Json

CONSTANTS MaxLen,       \* longest signature list
          MaxKeys,      \* most authorized keys present in the key table (1..4)
          MaxThr,       \* largest threshold
          Sites,        \* verification sites explored
          DelegDedup    \* TRUE iff Delegations::verify_role ignores repeated key ids

\* Entry kinds.  "good"/"corrupt"/"other" carry the index of an authorized in-table key.
KindsK   == {"good", "corrupt", "other"}      \* valid / corrupted / valid over other content
Kinds0   == {"otherRole", "unknown", "missing"}
\* otherRole: valid signature by an in-table key that is listed for another role only
\* unknown  : valid signature by a key that is in no table
\* missing  : valid signature by a key whose id is authorized but which is absent from the table

VARIABLES site, nkeys, thr, list
vars == <<site, nkeys, thr, list>>

Entry(kind, k) == [kind |-> kind, k |-> k]

\* symmetry reduction: keys are first used in increasing order of their index
MaxUsed(l) == LET S == {l[i].k : i \in 1..Len(l)} IN
              IF S = {} THEN 0 ELSE CHOOSE m \in S : \A x \in S : x <= m

Init == /\ site \in Sites
        /\ nkeys \in 1..MaxKeys
        /\ thr \in 1..MaxThr
        /\ list = <<>>

Extend == /\ Len(list) < MaxLen
          /\ \/ \E kind \in KindsK, k \in 1..nkeys :
                   /\ k <= MaxUsed(list) + 1
                   /\ list' = Append(list, Entry(kind, k))
             \/ \E kind \in Kinds0 : list' = Append(list, Entry(kind, 0))
          /\ UNCHANGED <<site, nkeys, thr>>

Next == Extend
Spec == Init /\ [][Next]_vars

-----------------------------------------------------------------------------
\* The property

ValidSigners(l) == {l[i].k : i \in {j \in 1..Len(l) : l[j].kind = "good"}}
SpecCount(l)    == Cardinality(ValidSigners(l))
SpecAccept      == SpecCount(list) >= thr

\* The code: Root::verify_role -- a fold with a set of key ids already counted
RECURSIVE AlgoRootFrom(_, _, _, _)
AlgoRootFrom(l, i, valid, seen) ==
  IF i > Len(l) THEN valid
  ELSE LET e == l[i]
           authorized == e.kind \in KindsK \/ e.kind = "missing"   \* role_keys.keyids.contains
           inTable    == e.kind \in KindsK                          \* self.keys.get
           verifies   == e.kind = "good"                            \* key.verify(data, sig)
       IN IF authorized /\ inTable /\ verifies /\ e.k \notin seen
          THEN AlgoRootFrom(l, i + 1, valid + 1, seen \cup {e.k})
          ELSE AlgoRootFrom(l, i + 1, valid, seen)
AlgoRoot(l) == AlgoRootFrom(l, 1, 0, {})

\* The code: Delegations::verify_role
RECURSIVE AlgoDelegFrom(_, _, _, _)
AlgoDelegFrom(l, i, valid, seen) ==
  IF i > Len(l) THEN valid
  ELSE LET e == l[i]
           ok == e.kind = "good"
       IN IF ok /\ (~DelegDedup \/ e.k \notin seen)
          THEN AlgoDelegFrom(l, i + 1, valid + 1, seen \cup {e.k})
          ELSE AlgoDelegFrom(l, i + 1, valid, seen)
AlgoDeleg(l) == AlgoDelegFrom(l, 1, 0, {})

DelegSites == {"deleg1", "deleg2", "api-deleg"}
AlgoCount  == IF site \in DelegSites THEN AlgoDeleg(list) ELSE AlgoRoot(list)
AlgoAccept == AlgoCount >= thr

\* C01 as TLC checks it
AlgoMeetsSpec == AlgoAccept = SpecAccept
CountIsDistinct == AlgoCount = SpecCount(list)

\* anti-vacuity: some state has a repeated good key, some state accepts, some rejects
Repeated == \E i, j \in 1..Len(list) : i < j /\ list[i].kind = "good" /\ list[j] = list[i]

-----------------------------------------------------------------------------
\* Behaviour generation: one JSON line per case
Case == [site |-> site, nkeys |-> nkeys, thr |-> thr, list |-> list,
         accept |-> SpecAccept, count |-> SpecCount(list)]
Emit == PrintT(<<"REPLAY", ToJson(Case)>>)
=============================================================================
