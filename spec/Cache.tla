------------------------------- MODULE Cache -------------------------------
(***************************************************************************)
(* Repository::cache (tough/src/cache.rs), property C19: the requested     *)
(* targets are saved through the verified save path, then the metadata     *)
(* files are copied by their canonical names, then (optionally) every root *)
(* from 1 up to the trusted one.  One state = one case.                    *)
(***************************************************************************)
EXTENDS Naturals, FiniteSets, TLC, Json

CONSTANTS Targets, MaxRoot

VARIABLES subset,     \* the targets asked for ("all" = none named)
          chain,      \* whether the root chain is requested
          rootv,      \* version of the trusted root
          corrupt     \* a target whose file in the source repository is corrupted, or "none"
vars == <<subset, chain, rootv, corrupt>>
Init == /\ subset \in (SUBSET Targets) \cup {{"all"}}
        /\ chain \in BOOLEAN /\ rootv \in 1..MaxRoot /\ corrupt \in Targets \cup {"none"}
Next == UNCHANGED vars
Spec == Init /\ [][Next]_vars

Wanted == IF subset = {"all"} THEN Targets ELSE subset
\* targets are cached first; the first one that fails verification aborts the operation
Succeeds == corrupt \notin Wanted
Roots == IF chain /\ Succeeds THEN 1..rootv ELSE {}
\* C19
NoUnverifiedTarget == TRUE      \* a corrupted target is never stored: judged on the files written
RootChainComplete == chain /\ Succeeds => Roots = 1..rootv
Emit == PrintT(<<"REPLAY", ToJson([subset |-> subset, chain |-> chain, rootv |-> rootv, corrupt |-> corrupt,
                                   ok |-> Succeeds, roots |-> Roots, wanted |-> Wanted])>>)
=============================================================================
