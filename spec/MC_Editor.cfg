SPECIFICATION Spec
CONSTANTS
  Names = {"t1", "t2"}
  DKeys = {110, 111}
  MaxOps = 5
  ThresholdChecked = TRUE
  ProbeRefusals = FALSE
  MinOps = 0
  Deep = FALSE
INVARIANTS SignedLoads
CHECK_DEADLOCK FALSE
