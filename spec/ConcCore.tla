------------------------------ MODULE ConcCore ------------------------------
(***************************************************************************)
(* TufStoreConc.tla without its history variables and over unbounded       *)
(* versions: two cycles at the same time on one datastore directory, each  *)
(* reading a stored document once (rollback check) and replacing it later. *)
(* Checked with Apalache by an inductive invariant, for every natural      *)
(* number Old and every pair of served versions (TLC checks TufStoreConc   *)
(* with five pairs).  Steps are numbered 0..5: even = R(f), odd = W(f),    *)
(* f = ts, sn, tg.                                                         *)
(***************************************************************************)
EXTENDS Integers

VARIABLES
  \* @type: Int;
  old,
  \* @type: Str -> Int;
  files,
  \* @type: Str -> Int;
  ver,
  \* @type: Str -> Int;
  pc,
  \* @type: Str -> Str;
  res
vars == <<old, files, ver, pc, res>>

Procs == {"A", "B"}
Files == {"ts", "sn", "tg"}
FileOf(i) == IF i <= 1 THEN "ts" ELSE IF i <= 3 THEN "sn" ELSE "tg"
IdxOfW(f) == IF f = "ts" THEN 1 ELSE IF f = "sn" THEN 3 ELSE 5
Results == {"running", "ok", "older"}

Init == /\ old \in Nat
        /\ files = [f \in Files |-> old]
        /\ ver \in [Procs -> Nat]
        /\ pc = [p \in Procs |-> 0]
        /\ res = [p \in Procs |-> "running"]

Step(p) ==
  /\ res[p] = "running"
  /\ pc[p] <= 5
  /\ LET f == FileOf(pc[p]) IN
       IF pc[p] % 2 = 0
       THEN /\ IF files[f] > ver[p]
               THEN res' = [res EXCEPT ![p] = "older"] /\ pc' = pc
               ELSE res' = res /\ pc' = [pc EXCEPT ![p] = @ + 1]
            /\ UNCHANGED files
       ELSE /\ files' = [files EXCEPT ![f] = ver[p]]
            /\ pc' = [pc EXCEPT ![p] = @ + 1]
            /\ res' = IF pc[p] = 5 THEN [res EXCEPT ![p] = "ok"] ELSE res
  /\ UNCHANGED <<old, ver>>

\* stuttering keeps Apalache from reporting the end of both cycles as a deadlock
Next == (\E p \in Procs : Step(p)) \/ UNCHANGED vars

TypeOK == /\ old \in Nat
          /\ files \in [Files -> Nat]
          /\ ver \in [Procs -> Nat]
          /\ pc \in [Procs -> 0..6]
          /\ res \in [Procs -> Results]

\* the properties (TufStoreConc.tla: NeverBelowEarlier, NeverTorn, SuccessNotOlder)
NeverBelowEarlier == \A f \in Files : files[f] >= old
NeverTorn == \A f \in Files : files[f] = old \/ \E p \in Procs : files[f] = ver[p] /\ pc[p] > IdxOfW(f)
SuccessNotOlder == \A p \in Procs : res[p] = "ok" => ver[p] >= old
\* what makes them inductive: a process that has passed a rollback check was served nothing older
\* than what had been trusted before the two started; "ok" is reached at the end only
PassedMeansNotOlder == \A p \in Procs : pc[p] >= 1 => ver[p] >= old
OkAtEnd == \A p \in Procs : (res[p] = "ok" <=> pc[p] = 6) /\ (res[p] = "older" => pc[p] % 2 = 0 /\ pc[p] <= 4)

IndInv == TypeOK /\ NeverBelowEarlier /\ NeverTorn /\ SuccessNotOlder /\ PassedMeansNotOlder /\ OkAtEnd
IndInit == IndInv
=============================================================================
