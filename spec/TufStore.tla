------------------------------ MODULE TufStore ------------------------------
(***************************************************************************)
(* File-operation-level refinement of the datastore writes of one update   *)
(* cycle (tough/src/datastore.rs Datastore::bytes / create / system_time,  *)
(* called from the load_* functions of lib.rs), with a process crash or an *)
(* I/O failure at any file-system call (property C15).                     *)
(*                                                                         *)
(* History explored: cycle 1 has succeeded and stored version Old of       *)
(* timestamp, snapshot and targets.  Cycle 2 is served version New of each *)
(* and is interrupted: the process is killed after any number of file      *)
(* system calls, or one open/write/rename fails.  Then a follow-up cycle   *)
(* runs against (a) a replayed repository in which one role is older than  *)
(* Old, or (b) the current repository.                                     *)
(*                                                                         *)
(* Atomic = FALSE: Datastore::create is open(O_TRUNC); write; close        *)
(* Atomic = TRUE : Datastore::create is open(tmp); write; rename; close    *)
(*                 (tempfile::NamedTempFile::persist renames, then the     *)
(*                 handle is dropped)                                      *)
(***************************************************************************)
EXTENDS Naturals, Sequences, FiniteSets, TLC, Json

CONSTANTS Atomic, Old, New, Lower

Files == {"lkt", "ts", "sn", "tg"}
Roles == <<"ts", "sn", "tg">>

\* one system call: [op, f]
Op(o, f) == [op |-> o, f |-> f]
ReadOps(f)   == <<Op("open-r", f), Op("close", f)>>
CreateOps(f) == IF Atomic
                THEN <<Op("open-w", "tmp"), Op("write", "tmp"), Op("rename", f), Op("close", "tmp")>>
                ELSE <<Op("open-w", f), Op("write", f), Op("close", f)>>
TimeOps == ReadOps("lkt") \o CreateOps("lkt")          \* Datastore::system_time
PhaseOps(f) == ReadOps(f) \o TimeOps \o CreateOps(f)   \* rollback check, expiry check, store
\* a whole cycle with enforcement on and no key rotation (lib.rs order)
CycleOps == TimeOps \o PhaseOps("ts") \o PhaseOps("sn") \o PhaseOps("tg")

VARIABLES
  files,   \* file -> version of the parsable, verifying document it holds; 0: absent, empty or torn
  tmp,     \* the temporary file of an atomic create: "absent" | "empty" | [f, v]
  i,       \* number of calls of cycle 2 executed
  phase,   \* "cycle2" | "crashed" | "failed" | "done2" | "followed"
  fault,   \* what interrupted cycle 2: [kind, at]
  follow,  \* what the follow-up cycle was served: [ts, sn, tg]
  result   \* result of the follow-up cycle: [res, ts, sn, tg]
vars == <<files, tmp, i, phase, fault, follow, result>>

NoFault == [kind |-> "none", at |-> 0]
Init == /\ files = [f \in Files |-> Old] /\ tmp = "absent" /\ i = 0 /\ phase = "cycle2"
        /\ fault = NoFault /\ follow = [ts |-> 0, sn |-> 0, tg |-> 0]
        /\ result = [res |-> "none", ts |-> 0, sn |-> 0, tg |-> 0]

\* effect of one successful call on the directory
Apply(o, fs, t) ==
  CASE o.op = "open-w" /\ o.f = "tmp" -> <<fs, "empty">>
    [] o.op = "write"  /\ o.f = "tmp" -> <<fs, "full">>
    [] o.op = "rename"                -> <<[fs EXCEPT ![o.f] = New], "absent">>
    [] o.op = "open-w"                -> <<[fs EXCEPT ![o.f] = 0], t>>      \* O_TRUNC
    [] o.op = "write"                 -> <<[fs EXCEPT ![o.f] = New], t>>
    [] OTHER                          -> <<fs, t>>

Step == /\ phase = "cycle2" /\ i < Len(CycleOps)
        /\ LET r == Apply(CycleOps[i + 1], files, tmp) IN files' = r[1] /\ tmp' = r[2]
        /\ i' = i + 1
        /\ phase' = IF i + 1 = Len(CycleOps) THEN "done2" ELSE "cycle2"
        /\ UNCHANGED <<fault, follow, result>>

\* the process dies between two calls (kill immediately before call i+1 = immediately after call i)
Crash == /\ phase = "cycle2"
         /\ phase' = "crashed" /\ fault' = [kind |-> "kill", at |-> i]
         /\ UNCHANGED <<files, tmp, i, follow, result>>

\* call i+1 fails (ENOSPC / EIO): the library returns an error and the cycle ends.  A failing
\* open or rename changes nothing; a failing write leaves what open(O_TRUNC) left.
Failable == {"open-r", "open-w", "write", "rename"}
IoFail == /\ phase = "cycle2" /\ i < Len(CycleOps) /\ CycleOps[i + 1].op \in Failable
          /\ phase' = "failed" /\ fault' = [kind |-> "iofail", at |-> i + 1]
          /\ UNCHANGED <<files, tmp, i, follow, result>>

\* follow-up cycle, phase level (TufClient.tla TsOutcome/SnOutcome/TgOutcome restricted to
\* versions): a stored file takes part in the rollback check only if it parses
Counts(f) == files[f] # 0
FollowRes(s) ==
  IF Counts("ts") /\ files["ts"] > s.ts THEN [res |-> "Older:timestamp", ts |-> 0, sn |-> 0, tg |-> 0]
  ELSE IF Counts("sn") /\ files["sn"] > s.sn THEN [res |-> "Older:snapshot", ts |-> 0, sn |-> 0, tg |-> 0]
  \* 3.3.3: the stored snapshot of version v lists targets version v in these histories
  ELSE IF Counts("sn") /\ files["sn"] > s.tg THEN [res |-> "Older:targets", ts |-> 0, sn |-> 0, tg |-> 0]
  ELSE IF Counts("tg") /\ files["tg"] > s.tg THEN [res |-> "Older:targets", ts |-> 0, sn |-> 0, tg |-> 0]
  ELSE [res |-> "ok", ts |-> s.ts, sn |-> s.sn, tg |-> s.tg]
\* (a) exactly one role older than what cycle 1 trusted, the others current; (b) everything current
Replays == {[ts |-> Lower, sn |-> New, tg |-> New], [ts |-> New, sn |-> Lower, tg |-> New],
            [ts |-> New, sn |-> New, tg |-> Lower], [ts |-> Old, sn |-> Old, tg |-> Old],
            [ts |-> New, sn |-> New, tg |-> New]}
FollowUp == /\ phase \in {"crashed", "failed", "done2"}
            /\ \E s \in Replays :
                 /\ follow' = s /\ result' = FollowRes(s)
                 /\ phase' = "followed"
            /\ UNCHANGED <<files, tmp, i, fault>>

Next == Step \/ Crash \/ IoFail \/ FollowUp
Spec == Init /\ [][Next]_vars

-----------------------------------------------------------------------------
\* C15
\* what cycle 2 had provably trusted when it was interrupted is at least Old for every role,
\* so no later cycle may succeed with a version below Old
RollbackSurvives ==
  phase = "followed" /\ result.res = "ok" => result.ts >= Old /\ result.sn >= Old /\ result.tg >= Old
\* and a repository at least as new as everything trusted is never refused
NoLockout ==
  phase = "followed" /\ follow = [ts |-> New, sn |-> New, tg |-> New] => result.res = "ok"
\* every stored document is always a complete one (what makes the two above hold)
NeverTorn == \A f \in Files : files[f] # 0

\* behaviour generation
Emit == phase = "followed" =>
          PrintT(<<"REPLAY", ToJson([fault |-> fault, follow |-> follow, result |-> result,
                                     files |-> files, nops |-> Len(CycleOps)])>>)
EmitOps == i = 0 => PrintT(<<"REPLAY", ToJson([ops |-> CycleOps])>>)
=============================================================================
