SPECIFICATION Spec
CONSTANTS
  MaxLen = 3
  MaxKeys = 3
  MaxThr = 3
  Sites = {"any"}
  DelegDedup = TRUE
INVARIANTS Emit
CHECK_DEADLOCK FALSE
