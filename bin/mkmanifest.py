#!/usr/bin/env python3
"""Regenerates MANIFEST.json from the table below (single place to edit)."""
import json, os
V = os.path.dirname(os.path.dirname(os.path.abspath(__file__)))
props = [json.loads(l) for l in open(os.path.join(V, "properties.jsonl"))]
ids = [p["id"] for p in props]

CHECKS = {
 "C01": dict(cat="model_checking", design="5 C01",
   text="Threshold.tla states the property (count of distinct authorized in-table keys with a valid signature over this content) and transcribes both counting loops of verify.rs; TLC proves them equal for every signature list within bounds, and every TLC-enumerated list is realised with real keys (Ed25519, ECDSA-P256, RSA-PSS) at each of the 8 verification sites plus the two public verify_role functions and decided by the real code.",
   note="Trusted: TLC, the abstraction of a signature as valid exactly for (key, content), the harness's own canonical JSON / SHA-256 / aws-lc-rs signer. Lists longer than 5 and more than 4 keys are not explored.",
   technique="TLA+ model (TLC exhaustive) + replay of every enumerated case into the real verifier and client"),

 "C02": dict(cat="model_checking", design="5 C02",
   text="TufClient.tla models the root walk of load_root action by action; MC_RootChain lets the server answer every request for a newer root with any key configuration, any signer set, a version one lower/equal/one higher, unparsable, oversized, endless or failing streams, and signs later roles with online keys of any epoch. TLC checks WalkDoublySigned, WalkEndsAtRoot, NeverBelowShipped, RootReqsConsecutive, ShippedMustSelfVerify, TrustedVerified on every state; every TLC path is replayed through RepositoryLoader::load with real keys (Ed25519, ECDSA, RSA) and the recorded trace (requests, served documents, result, versions, datastore) is validated by TLC against the same actions (Trace_Client strict), falling back to the observational restatement of the property for traces the model cannot explain. The repository's own fixtures (tough/tests/data: tuf-reference-impl, consistent-snapshots, rotated-root, dubious-role-names, expired-repository with and without enforcement, safe-target-paths) are loaded twice each by the real client through the recording transport; an abstraction function maps the real RSA / Ed25519 documents to model records (signatures re-verified by the harness), and the traces are validated against TufClient in both modes; a copy with one recorded version changed must be rejected. The repository's own test suite (cargo test -p tough -p tuftool, built with the hook) is run with load tracing on: each of the 92 RepositoryLoader::load calls the tests perform, in the test processes and in the tuftool processes they spawn, records what it was given, the bytes it pulled per request, its result and the datastore contents; the records go through the same abstraction function and are validated against TufClient in both modes.",
   note="Trusted: TLC, signer-set abstraction of signatures, harness canonical JSON/signing. Chains up to 4 published versions (check) / 2-3 (replay), 4 key configurations.",
   technique="TLA+ model (TLC exhaustive) + replay of every behaviour into the real client + TLC trace validation"),
 "C03": dict(cat="model_checking", design="5 C03",
   text="TufClient.tla over several cycles sharing the datastore; MC_Rollback serves genuinely signed files of every version and key epoch, withholds roots, ships any root, over 7 root chains (rotation, rotate-back, threshold, overlap, re-order). TLC checks RollbackSafe (modulo the recorded finding F2 where it applies), NoLockout and the per-cycle invariants; all 2-cycle histories (thorough: plus simulated 6-cycle histories with versions up to 2^63-1) are replayed on one real datastore directory and the recorded traces validated by TLC.",
   note="Trusted: as C02. F2 (trusted root not persisted) is recorded in known_findings.json; pairs of cycles in its two scenario classes print KNOWN-FINDING, any other lower version is a VIOLATION.",
   technique="TLA+ model (TLC exhaustive, 3 cycles) + replay + TLC trace validation"),
 "C04": dict(cat="model_checking", design="5 C04",
   text="TufClient.tla with the clock, latest_known_time and enforcement as state; MC_Freeze expires every subset of roles and an intermediate root and lets the clock jump between any two phases and before reads. TLC checks UnsafeNeverFailsForTime, ReadAfterExpiryFails, NeverExpiredWrongly, ClockBackFails, TargetsFreshAtEnd; every path is replayed with the scripted clock hook at tick sizes of 2 s, 1 day and 400 days, and the recorded traces (including the clock samples the library actually took) are validated by TLC; the observational mode restates the property over samples, expiries and results. Lifecycle.tla adds the system level: tuftool publishes metadata with expirations in the past or the future, tools load it with and without --allow-expired-repo, and a client with a datastore refreshes with enforcement on (ExpiredNeverTrusted, ToolsRefuseExpired); simulated behaviours are run through the tuftool binary and the in-process client, and the outcome of every refresh is judged against the dates in the written files.",
   note="Trusted: TLC, the clock hook (adds a scripted offset inside Datastore::system_time), expiry instants placed strictly between ticks so that <= vs < at the boundary is not exercised.",
   technique="TLA+ model (TLC exhaustive) + replay with scripted clock + TLC trace validation + Lifecycle.tla command-level model with replay through the tuftool binary"),
 "C05": dict(cat="model_checking", design="5 C05",
   text="TufClient.tla with pins (version, digest as file identity, length) and byte variants; MC_Pins combines any published timestamp pin with any published snapshot/targets file (version, spelling, size). TLC checks PinsMatch and ConsistentNames; every path is replayed and the recorded requests and results validated by TLC. The repository's own fixtures (tough/tests/data: tuf-reference-impl, consistent-snapshots, rotated-root, dubious-role-names, expired-repository with and without enforcement, safe-target-paths) are loaded twice each by the real client through the recording transport; an abstraction function maps the real RSA / Ed25519 documents to model records (signatures re-verified by the harness), and the traces are validated against TufClient in both modes; a copy with one recorded version changed must be rejected.",
   note="Trusted: TLC, SHA-256 modelled as injective, harness padding/re-spelling of files. Delegated-role pins are covered by the delegation module (C07/C09), not here.",
   technique="TLA+ model (TLC exhaustive) + replay + TLC trace validation"),
 "C09": dict(cat="model_checking", design="5 C09",
   text="Cycle level: TufClient.tla/MC_Bounds serves oversized and endless streams for every request, never-ending chains of valid roots, every relation of size, pinned length and limit (including limit 0 and size-1 byte); TLC checks SizesBounded, RequestsBounded, RootRequestsBounded, LegitNotRefused; replays run with 1 KiB transport chunks and the bytes actually pulled per request are checked against the bound inside the trace specification.",
   note="Trusted: as C02; unit 4096 bytes. Delegation part: Delegation.tla (graph and layered modes) enumerates every list of up to 3-4 delegation edges incl. self/mutual delegation and shared roles; each is loaded for real with normal and 3x-padded delegated files; termination, request count and legitimate sizes are judged. F13 (shared role fetched once per path) is a recorded finding.",
   technique="TLA+ model (TLC exhaustive) + replay + TLC trace validation with per-request byte counts"),
 "C14": dict(cat="model_checking", design="5 C14",
   text="Same model as C03 (MC_Rollback chains rotating timestamp keys, snapshot keys, overlapping sets, none); TLC checks RecoversAfterRotation for every history; replays use concrete versions 1, 2^40, 2^63-1; traces validated by TLC. The F2 facet (cycle started from a shipped root other than the one trusted last) is a recorded finding.",
   note="Trusted: as C03. 'Replaces the keys' is read as a net change of the key set between the root of the previous successful cycle and the final root of this cycle.",
   technique="TLA+ model (TLC exhaustive) + replay with inflated versions + TLC trace validation"),

 "C15": dict(cat="fault_enumeration", design="5 C15",
   text="TufStore.tla unfolds the datastore traffic of one update cycle into its file-system calls (35 on this tree; the sequence is read from an LD_PRELOAD shim and compared with the model) and enables a crash after any call and a failure of any open/write/rename; TLC checks RollbackSurvives and NoLockout over every (fault, follow-up repository) pair. Every TLC case is executed for real: cycle 1 in-process, the interrupted cycle in a child process under the shim (SIGKILL before/after the n-th call, ENOSPC, EIO), then the follow-up cycle; the property is evaluated on the observed datastore and result.",
   note="Trusted: TLC; the shim sees libc-level calls only (a rename issued as a raw syscall by tempfile::persist is bracketed by the calls around it); process death and failing calls, not power loss. Cycle without delegations, enforcement on.",
   technique="TLA+ model of crash points (TLC exhaustive) + fault injection at every datastore call of the real client"),

 "C06": dict(cat="model_checking", design="5 C06",
   text="Stream.tla models the pipeline transport -> size cap (signed length) -> digest check -> caller; TLC checks EndsOkImpliesDigest, NeverMoreThanSignedLength, OtherContentErrs, ExactSucceeds over every content variant (flip/truncate at every position, extension, substitution, endless, transport error after every chunk) in every chunking. Every terminal path is replayed through Repository::read_target with a scripted transport for top-level and delegated targets, both consistent_snapshot settings and unit sizes up to 16 KiB; the property is evaluated on the bytes actually handed out, the model's outcome is compared for conformance.",
   note="Trusted: TLC, digest modelled as identity on content, harness SHA-256. Contents up to 4 units (64 KiB at the largest unit).",
   technique="TLA+ model (TLC exhaustive) + replay of every behaviour through read_target"),
 "C08": dict(cat="model_checking", design="5 C08",
   text="Stream.tla with the save_target consumer (temporary file, rename after a verified end, removal on failure) and an observer between any two steps: TLC checks NoPartialAtDest, FailureChangesNothing, SuccessIsComplete; every path is replayed through Repository::save_target while the transport inspects the destination before every chunk and the directory tree around the output directory is compared before/after. Names.tla transcribes clean_name and the containment check; TLC enumerates every name up to length 5 over a path-significant alphabet and each is saved for real (both prefix modes), plus random names up to length 40.",
   note="Trusted: TLC; observation points are the moments before each transport chunk is delivered (single-threaded runtime); directories are not counted as files. Target names reach the transport as relative URL references; the harness serves the content under the URL the client derives.",
   technique="TLA+ models (Stream, Names; TLC exhaustive) + replay through save_target with file-system observation"),

 "C18": dict(cat="model_checking", design="5 C18",
   text="Http.tla transcribes RetryStream (current_try, next_byte, has_range_support, may_retry, build_request) against a server that answers every request with any response of the property's alphabet, with or without Accept-Ranges; TLC checks PrefixOnly, OkMeansComplete, RequestsAtMostTries, RangeOnlyIfAnnounced, NotFoundClass, ClientErrorsFailFast for tries 1..4 and sizes 0..3 units. Every terminal path is replayed against the real HttpTransport and a scripted raw-TCP server (unit 1 B .. 64 KiB, i.e. up to 192 KiB resources; stalls as silence past the request timeout); the server's request log (Range headers) and the bytes yielded are judged by the property and compared with the model.",
   note="Trusted: TLC, the local TCP stack, reqwest's classification of a body timeout as retryable. Connection resets / malformed responses are outside the property's alphabet.",
   technique="TLA+ model of the retry state machine (TLC exhaustive) + replay against the real transport and a scripted HTTP server"),

 "C07": dict(cat="model_checking", design="5 C07",
   text="Delegation.tla (tree mode) holds one repository per state: every delegation tree over up to 3 delegated roles, every set of names each edge matches and each role lists. It transcribes Targets::find_target and Targets::validate and states the property's own definition of the authorized entry (first in pre-order whose whole chain matches); TLC checks FindMeetsSpec and LoadedMeansAuthorized on all 262 k repositories. Each enumerated repository (quick: all with 2 delegated roles) is built with real metadata - match sets realised as literals, dir/*, '?' patterns and hash prefixes, names partly needing resolution - loaded, and every name read; the digest requested under consistent snapshots shows which role's entry is enforced. DelegCli.tla models the tuftool delegation workflow (create-role, add-role, update-delegated-targets, add-key, remove-key, remove, update --role) as a protocol between the owner and role holders over staging directories (TLC: PublishedLoads, IncorporatedMeansAuthorized, PathsHold, RoleVersionsMonotone, 450 k states at 8 commands); behaviours of three plan families are run through the tuftool binary, the published repository is parsed and its signatures re-verified independently and loaded with a fresh client after every command.",
   note="Trusted: TLC; glob semantics abstracted to match sets (patterns never put '/' under a wildcard); depth 3, 2-3 names; fan-out 3 with 6 names is not reached.",
   technique="TLA+ model of lookup and validation (TLC exhaustive) + replay of every enumerated repository through load/read_target + DelegCli.tla protocol model with replay through the tuftool delegation commands"),

 "C11": dict(cat="model_checking", design="5 C11",
   text="CJson.tla defines the canonical form of an object (members ordered by the code points of the NFC-normalised keys, only quotation mark and backslash escaped) and models the formatter's buffered, ordered member map; TLC checks FormatterIsCanonical for every insertion order of every key set (size <= 3, keys of length <= 2 over an 8-symbol alphabet with controls, space, '!', '\"', '\\', a decomposed accent). Every enumerated object is serialised by the real CanonicalFormatter in exactly that insertion order (custom Serialize) and through serde_json::Value, and compared byte for byte; a random driver (values to depth 4, full ASCII incl. controls, multi-byte characters, two member orders each, floats must be refused) is compared with the harness's independent canonicaliser.",
   note="Trusted: TLC; Unicode normalisation is modelled by one composition rule (e + U+0301), which is also the only one the independent canonicaliser knows; numbers are i64/u64.",
   technique="TLA+ definition + formatter model (TLC exhaustive) as oracle, replay of every case into the real formatter, randomized differential driver"),

 "C13": dict(cat="model_checking", design="5 C13",
   text="KeyTable.tla states which key tables must parse (every identifier is the digest of its key, identifiers pairwise distinct as bytes) and transcribes the deserialisation visitor; TLC checks them equal for tables of 1..4 keys, both sites and 9 mutations at every position. Every case is realised 5 times with real keys of all supported types/encodings (Ed25519 hex, RSA PEM, ECDSA PEM, ECDSA hex, old ECDSA key type) and parsed by the real schema types; accepted tables are re-serialised and re-parsed twice and their identifiers compared with the harness's independent digest; keys imported with parse_keypair are checked for identifier stability.",
   note="Trusted: TLC; SHA-256 as injective; the harness's own canonical JSON for the oracle digest.",
   technique="TLA+ model as oracle (TLC exhaustive) + replay of every case into serde deserialisation of Root / Targets"),
 "C16": dict(cat="model_checking", design="5 C16",
   text="Names.tla transcribes encode_filename and the delegated file name; TLC enumerates every role name up to length 3-4 over a 13-symbol alphabet of URL- and path-significant characters and checks PlainEntry. Every name goes through the public DelegatedTargets::filename (compared with the model, collision check over all names); names up to length 2-3 additionally through a full load() with a datastore (every requested URL, every datastore entry and the datastore's parent are inspected), Repository::cache and RepositoryEditor delegate_role/sign/write, for both consistent_snapshot settings; random names up to length 64.",
   note="Trusted: TLC; the harness transport logs raw URLs; directory listings taken after each operation.",
   technique="TLA+ model of name encoding (TLC exhaustive) + replay of every name through client, cache and editor with directory/URL observation"),

 "C12": dict(cat="model_checking", design="5 C12",
   text="SignedDoc.tla states the abstract argument - the client verifies over the re-serialisation of what it parsed, so an accepted document's used content equals the signed content - for every position class and mutation kind and yields the expected verdicts (AcceptedMeansSigned, AlterationsRejected, InsertRejectedOrDropped, HarmlessAccepted, ForeignMembersVerify). The harness builds documents of every role type carrying unknown members at every level with a catch-all map and serves every single-point mutation at every concrete position (about 400 mutants) through load() with the original signatures; when a mutant is accepted the parsed content is compared with the signed original.",
   note="Honest limit: TLC contributes the classification and verdict table; whether each Rust struct field survives re-serialisation is decided only by the replay. F11 is a recorded finding.",
   technique="TLA+ model as oracle (TLC) + exhaustive single-point mutation of real signed documents through the real client"),

 "C10": dict(cat="model_checking", design="5 C10",
   text="Editor.tla models the public editing operations (add/remove target, version, delegate_role from targets or from a delegated role, sign_targets_editor, change_delegated_targets, sign) with exactly the success condition of each call, and the client's verification of the result; TLC checks SignedLoads for all programs of up to 5 operations. Every program of up to 4 operations that ends in sign - generated with the threshold check switched off, so that programs the editor must refuse are tried too - is executed with the real RepositoryEditor, written, published (copy and symlink), loaded back through an HTTP-like transport and through file:// URLs, every target downloaded, the client's view compared with the model's, and snapshot/timestamp compared with the written files (version, length, SHA-256). EditorX.tla enumerates the cross-party cases (threshold, versions, signer sets incl. foreign keys and double signatures) for update_delegated_targets. Lifecycle.tla adds the command level: tuftool create / update / transfer-metadata / clone / download and a client with a persistent datastore as actions over the published, cloned and downloaded directories (TLC: UpdateKeeps, CloneFaithful, ClientMonotone, MonotonePublisherServes, ...); simulated behaviours spread over the command kinds are run through the tuftool binary built from the working tree, the directories are inspected independently after every command and the property predicate is evaluated on what was observed. DelegCli.tla models the tuftool delegation workflow (create-role, add-role, update-delegated-targets, add-key, remove-key, remove, update --role) as a protocol between the owner and role holders over staging directories (TLC: PublishedLoads, IncorporatedMeansAuthorized, PathsHold, RoleVersionsMonotone, 450 k states at 8 commands); behaviours of three plan families are run through the tuftool binary, the published repository is parsed and its signatures re-verified independently and loaded with a fresh client after every command.",
   note="Trusted: TLC, signer-set abstraction. Programs up to 4 operations over 2 targets / 2 delegated roles exhaustively (thorough), plus 400 simulated programs of 12..25 operations over 3 targets in the thorough tier; the 60-target scale of the property text is not reached. F14 is a recorded finding.",
   technique="TLA+ model of the editor API (TLC exhaustive) + replay of every program through the real editor and client + Lifecycle.tla / DelegCli.tla command-level models with replay through the tuftool binary"),
 "C17": dict(cat="model_checking", design="5 C17",
   text="EditorUpdate.tla enumerates every repository shape (unknown top-level members in targets/snapshot/timestamp and in delegated roles, custom data, a delegated role, a second-level role) x 0..2 added targets and states what from_repo + sign must carry over; each case is built by the harness's own writers, passed through RepositoryEditor::from_repo / sign / write, and the written JSON is compared with the input member by member (delegated file identical, its signature re-verified). Lifecycle.tla adds the command level: tuftool create / update / transfer-metadata / clone / download and a client with a persistent datastore as actions over the published, cloned and downloaded directories (TLC: UpdateKeeps, CloneFaithful, ClientMonotone, MonotonePublisherServes, ...); simulated behaviours spread over the command kinds are run through the tuftool binary built from the working tree, the directories are inspected independently after every command and the property predicate is evaluated on what was observed.",
   note="Oracle-style: the model is a transcription of which members the editor copies; the comparison is on real files. The tuftool update command is exercised by the Lifecycle.tla behaviours.",
   technique="TLA+ model as oracle (TLC) + replay through from_repo/sign/write with document comparison + Lifecycle.tla command-level model with replay through the tuftool binary"),
 "C19": dict(cat="model_checking", design="5 C19",
   text="Cache.tla enumerates target subsets x root chain x trusted root version x one corrupted source target and states which calls must succeed and which root files must exist; each case runs Repository::cache on a repository with odd role and target names and targets held by first- and second-level delegated roles, lists the directory tree (confinement), loads the copy with a client holding the same root (HTTP-like and file://), compares versions, reads back every requested target and checks that a corrupted target is never stored. Lifecycle.tla adds the command level: tuftool create / update / transfer-metadata / clone / download and a client with a persistent datastore as actions over the published, cloned and downloaded directories (TLC: UpdateKeeps, CloneFaithful, ClientMonotone, MonotonePublisherServes, ...); simulated behaviours spread over the command kinds are run through the tuftool binary built from the working tree, the directories are inspected independently after every command and the property predicate is evaluated on what was observed.",
   note="Oracle-style model for the library path; tuftool clone is exercised by the Lifecycle.tla behaviours. F14 is a recorded finding.",
   technique="TLA+ model as oracle (TLC) + replay through Repository::cache with directory and copy inspection + Lifecycle.tla command-level model with replay through the tuftool binary"),

 "C20": dict(cat="model_checking", design="5 C20",
   text="RootCli.tla models every `tuftool root` subcommand on the abstract file (version, key table, per-role key ids and thresholds, signatures) with the success condition the code implements, including --cross-sign and --ignore-threshold; TLC checks PlainSignSelfVerifies and EditsClearSigs over all sequences of up to 6-7 commands. Replayed through the tuftool binary built from the working tree: all (a share of the) 2-command sequences, simulated 6-12-command sequences, and the witness sequences TLC produces for the signature-counting variant of sign; after every invocation the harness parses the file itself, recomputes key identifiers, verifies signatures with its own verifier, and checks that a failing command left the file untouched.",
   note="Trusted: TLC; keys: one RSA, one Ed25519, one ECDSA; the other root used for --cross-sign is fixed (root key 1). Process creation limits the number of replayed sequences (about 35 invocations/s).",
   technique="TLA+ model of the CLI (TLC exhaustive with hidden history) + replay of generated command sequences through the real binary with independent inspection of root.json"),
}
NA_REASON = "check not built yet in this round (planned, see DESIGN.md section 5); not claimed"

checks = []
for pid in ids:
    if pid in CHECKS:
        c = CHECKS[pid]
        checks.append({
            "property_id": pid,
            "quick_cmd": f"bin/check {pid} --tier quick",
            "thorough_cmd": f"bin/check {pid} --tier thorough",
            "evidence_file": f"/verif/evidence/{pid}.json",
            "replay_cmd_template": f"bin/check {pid} --replay {{path}}",
            "engine": "tlc+vh",
            "level_claimed": {"category": c["cat"], "text": c["text"], "design_ref": "DESIGN.md section " + c["design"]},
            "level_note": c["note"],
            "technique": c["technique"],
        })
na = [{"property_id": pid, "reason": NA_REASON} for pid in ids if pid not in CHECKS]
m = {
 "version": 1,
 "setup_cmd": "bin/setup",
 "hooks": {
   "guard": "--cfg tough_verif",
   "enable": "RUSTFLAGS='--cfg tough_verif --check-cfg cfg(tough_verif)' (set in harness/.cargo/config.toml; the harness crate depends on /repo/tough by path, so every check rebuilds the working tree with the hook on)",
   "baseline_off_cmd": "cd /repo && cargo nextest run --workspace --no-fail-fast --tool-config-file pb:/w/lib/nextest.toml --profile pb --test-threads 8 --offline",
   "source_commits": ["090cad1", "d9a1202"],
   "add_only": True
 },
 "engines": [
   {"name": "tlc+vh", "path": "bin/check", "serves_properties": [c["property_id"] for c in checks],
    "kind_free_text": "TLA+ specifications in spec/ checked by TLC; behaviours generated by TLC replayed into the real code by the Rust harness harness/ (crate vh); traces recorded from the real code (replays and the repository's own fixtures) validated by TLC against Trace_* specifications; command-level models replayed through the tuftool binary; Apalache discharges the inductive invariant of RollbackCore.tla (unbounded versions) inside C03"}
 ],
 "checks": checks,
 "not_applicable": na,
 "notes": "All checks: exit 0 = held, exit 1 + VIOLATION line = violated, exit 2 = tool error. known_findings.json lists recorded findings and fixed defects."
}
json.dump(m, open(os.path.join(V, "MANIFEST.json"), "w"), indent=1)
print("MANIFEST.json:", len(checks), "checks,", len(na), "not applicable")
