"""Shared machinery for /verif/bin/check: building the harness, running TLC, evidence, verdicts."""
import fcntl
import json
import os
import re
import subprocess, shutil
import sys
import time

VERIF = os.path.dirname(os.path.dirname(os.path.abspath(__file__)))
SPEC = os.path.join(VERIF, "spec")
HARNESS = os.path.join(VERIF, "harness")
WORK = os.path.join(VERIF, "work")
REPLAYS = os.path.join(VERIF, "replays")
EVIDENCE = os.path.join(VERIF, "evidence")
VH = os.path.join(HARNESS, "target", "debug", "vh")
REPO = os.environ.get("VERIF_REPO", "/repo")

EXIT_OK, EXIT_VIOLATION, EXIT_TOOL = 0, 1, 2


class ToolError(Exception):
    pass


def log(*a):
    print(*a, flush=True)


def workdir(tag):
    d = os.path.join(WORK, tag)
    os.makedirs(d, exist_ok=True)
    return d


def sh(cmd, timeout=None, env=None, cwd=None, check=True, capture=True):
    e = dict(os.environ)
    if env:
        e.update(env)
    p = subprocess.run(cmd, shell=isinstance(cmd, str), cwd=cwd, env=e, timeout=timeout,
                       stdout=subprocess.PIPE if capture else None,
                       stderr=subprocess.STDOUT if capture else None, text=True)
    if check and p.returncode != 0:
        raise ToolError(f"command failed ({p.returncode}): {cmd}\n{(p.stdout or '')[-4000:]}")
    return p


def build_harness():
    """cargo build of the harness (path dependency => /repo's current working tree), under a lock."""
    os.makedirs(WORK, exist_ok=True)
    with open(os.path.join(WORK, ".build.lock"), "w") as lk:
        fcntl.flock(lk, fcntl.LOCK_EX)
        t0 = time.time()
        env = {"CARGO_NET_OFFLINE": "true"}
        p = sh(["cargo", "build", "--offline", "--quiet"], cwd=HARNESS, env=env, check=False, timeout=3600)
        if p.returncode != 0:
            raise ToolError("harness build failed:\n" + (p.stdout or "")[-6000:])
        return time.time() - t0


TUFTOOL_TARGET = os.path.join(HARNESS, "target-tuftool")
TUFTOOL = os.path.join(TUFTOOL_TARGET, "debug", "tuftool")


def build_tuftool():
    with open(os.path.join(WORK, ".build-tuftool.lock"), "w") as lk:
        fcntl.flock(lk, fcntl.LOCK_EX)
        env = {"CARGO_NET_OFFLINE": "true", "CARGO_TARGET_DIR": TUFTOOL_TARGET,
               "RUSTFLAGS": "--cfg tough_verif --check-cfg cfg(tough_verif)",
               # no debug info: the binary is executed tens of thousands of times
               "CARGO_PROFILE_DEV_DEBUG": "0"}
        p = sh(["cargo", "build", "--offline", "--quiet", "-p", "tuftool"], cwd=REPO, env=env,
               check=False, timeout=3600)
        if p.returncode != 0:
            raise ToolError("tuftool build failed:\n" + (p.stdout or "")[-6000:])
    return TUFTOOL


def vh(args, timeout=3600, env=None, check=True):
    p = sh([VH] + args, timeout=timeout, env=env, check=False)
    if check and p.returncode != 0:
        raise ToolError(f"harness command failed: vh {' '.join(args)}\n{(p.stdout or '')[-4000:]}")
    return p


# ---------------------------------------------------------------------------------------------
# TLC

def make_cfg(base_cfg, overrides, out_path, invariants=None, extra_lines=()):
    """Copy spec/<base_cfg>, replacing `NAME = value` constant lines by overrides."""
    text = open(os.path.join(SPEC, base_cfg)).read()
    for k, v in overrides.items():
        pat = re.compile(r"^(\s*)" + re.escape(k) + r"\s*(=|<-).*$", re.M)
        if not pat.search(text):
            raise ToolError(f"constant {k} not in {base_cfg}")
        rhs = v if isinstance(v, str) and v.startswith("<-") else f"= {v}"
        text = pat.sub(lambda m: f"{m.group(1)}{k} {rhs}", text)
    if invariants is not None:
        text = re.sub(r"^INVARIANTS?.*$", "INVARIANTS " + " ".join(invariants), text, flags=re.M)
    for l in extra_lines:
        text += "\n" + l + "\n"
    with open(out_path, "w") as f:
        f.write(text)
    return out_path


def tla_set(xs):
    return "{" + ", ".join(json.dumps(x) if isinstance(x, str) else str(x) for x in xs) + "}"


class TlcResult:
    def __init__(self):
        self.ok = False
        self.generated = 0
        self.distinct = 0
        self.depth = 0
        self.replays = []
        self.output = ""
        self.violation = None
        self.wall = 0.0
        self.coverage = {}


def tlc(module, cfg_path, tag, workers=8, timeout=1800, simulate=None, depth=None, seed=None,
        coverage=False, env=None, java_opts=None, heap="8g", replay_out=None):
    """Run TLC on spec/<module>.tla with an explicit cfg path. Returns TlcResult."""
    meta = os.path.join(workdir(tag), "tlc-meta")
    cmd = ["timeout", str(timeout), "tlc", "-workers", str(workers), "-metadir", meta, "-cleanup",
           "-noGenerateSpecTE", "-config", cfg_path]
    if simulate:
        cmd += ["-simulate", f"num={simulate}"]
        if depth:
            cmd += ["-depth", str(depth)]
    if seed is not None:
        cmd += ["-seed", str(seed)]
    if coverage:
        cmd += ["-coverage", "1"]
    cmd += [os.path.join(SPEC, module + ".tla")]
    e = dict(os.environ)
    jto = f"-Xmx{heap}"
    if java_opts:
        jto += " " + " ".join(java_opts)
    e["JAVA_TOOL_OPTIONS"] = jto
    if env:
        e.update(env)
    t0 = time.time()
    outpath = os.path.join(workdir(tag), "tlc.out")
    with open(outpath, "w") as out:
        p = subprocess.run(cmd, cwd=SPEC, env=e, stdout=out, stderr=subprocess.STDOUT)
    r = TlcResult()
    r.wall = time.time() - t0
    replays = []
    tail = []
    with open(outpath) as f:
        for line in f:
            if line.startswith('<<"REPLAY", '):
                s = line.strip()[len('<<"REPLAY", '):-2]
                try:
                    replays.append(json.loads(json.loads(s)))
                except Exception as ex:  # noqa
                    raise ToolError(f"cannot parse REPLAY line: {line[:300]} ({ex})")
            else:
                tail.append(line)
                if len(tail) > 4000:
                    tail = tail[-2000:]
    r.replays = replays
    r.output = "".join(tail)
    m = re.search(r"(\d+) states generated, (\d+) distinct states found", r.output)
    if m:
        r.generated, r.distinct = int(m.group(1)), int(m.group(2))
    m = re.search(r"depth of the complete state graph search is (\d+)", r.output)
    if m:
        r.depth = int(m.group(1))
    if simulate:
        m = re.search(r"The number of states generated: (\d+)", r.output)
        if m:
            r.generated = r.distinct = int(m.group(1))
    if coverage:
        for m in re.finditer(r"^<(\w+) line \d+, col \d+ to line \d+, col \d+ of module (\w+)>: (\d+):(\d+)", r.output, re.M):
            r.coverage[m.group(1)] = {"distinct": int(m.group(3)), "taken": int(m.group(4))}
    if p.returncode == 124:
        raise ToolError(f"TLC timed out after {timeout}s on {module} ({cfg_path})")
    if "Error:" in r.output or p.returncode not in (0,):
        if re.search(r"Invariant \w+ is violated|is violated|Temporal properties were violated|Deadlock reached", r.output):
            r.violation = r.output[-6000:]
            r.ok = False
            return r
        raise ToolError(f"TLC failed on {module} ({cfg_path}), rc={p.returncode}:\n{r.output[-3000:]}")
    r.ok = True
    return r


def apalache_inductive(module, tag, init="Init", indinit="IndInit", inv="IndInv", timeout=900):
    """Init => inv (length 0) and inv /\\ Next => inv' (length 1) with Apalache; returns seconds per obligation.
    A refuted obligation is a defect of the model, not of the code: ToolError."""
    out = os.path.join(workdir(tag), "apalache")
    res = {}
    for name, args in (("base", ["--init=" + init, "--length=0"]), ("step", ["--init=" + indinit, "--length=1"])):
        t0 = time.time()
        p = subprocess.run(["timeout", str(timeout), "apalache-mc", "check", "--inv=" + inv, "--out-dir=" + out] + args +
                           [os.path.join(SPEC, module + ".tla")], cwd=workdir(tag), text=True, capture_output=True)
        txt = (p.stdout or "") + (p.stderr or "")
        if p.returncode == 124:
            raise ToolError(f"apalache timed out on {module} ({name})")
        if "EXITCODE: OK" not in txt or "The outcome is: NoError" not in txt:
            raise ToolError(f"apalache: obligation '{name}' of {module}.{inv} is not discharged:\n" + txt[-2500:])
        res[name] = round(time.time() - t0, 1)
    shutil.rmtree(out, ignore_errors=True)
    return res


# ---------------------------------------------------------------------------------------------
# Known findings / verdicts / evidence

def known_findings():
    p = os.path.join(VERIF, "known_findings.json")
    if not os.path.exists(p):
        return {"findings": [], "fixed": []}
    return json.load(open(p))


class Verdict:
    def __init__(self, pid, tier, seed):
        self.pid, self.tier, self.seed = pid, tier, seed
        self.violations = []     # (what, replay dict)
        self.known_hits = {}     # finding id -> count
        self.drift = []
        self.t0 = time.time()
        self.cov = {}
        self.assumptions = []

    def violation(self, what, replay):
        self.violations.append((what, replay))

    def known(self, fid, what):
        self.known_hits.setdefault(fid, {"what": what, "count": 0})["count"] += 1

    def note_drift(self, what):
        self.drift.append(what)

    def finish(self, level, coverage, assumptions=None):
        os.makedirs(EVIDENCE, exist_ok=True)
        os.makedirs(REPLAYS, exist_ok=True)
        for fid, h in sorted(self.known_hits.items()):
            log(f"KNOWN-FINDING: property={self.pid} {fid}: {h['what']} ({h['count']} cases)")
        for d in self.drift[:20]:
            log(f"DRIFT: property={self.pid} {d}")
        paths = []
        for i, (what, replay) in enumerate(self.violations[:25]):
            path = os.path.join(REPLAYS, f"{self.pid}-{self.seed}-{i}.json")
            with open(path, "w") as f:
                json.dump({"property": self.pid, "what": what, "replay": replay}, f, indent=1)
            paths.append(path)
            log(f"VIOLATION property={self.pid} replay={path}")
            log(f"  {what}")
        coverage = dict(coverage)
        coverage["drift"] = len(self.drift)
        coverage["known_findings_hit"] = {k: v["count"] for k, v in self.known_hits.items()}
        ev = {"property_id": self.pid, "tier": self.tier, "seed": self.seed, "level": level,
              "coverage": coverage, "assumptions": assumptions or self.assumptions,
              "wall_s": round(time.time() - self.t0, 2), "violations": len(self.violations)}
        with open(os.path.join(EVIDENCE, f"{self.pid}.json"), "w") as f:
            json.dump(ev, f, indent=1)
        log(f"[{self.pid}] tier={self.tier} seed={self.seed} violations={len(self.violations)} "
            f"drift={len(self.drift)} wall={ev['wall_s']}s")
        return EXIT_VIOLATION if self.violations else EXIT_OK


def write_ndjson(path, rows):
    with open(path, "w") as f:
        for r in rows:
            f.write(json.dumps(r) + "\n")


def read_ndjson(path):
    return [json.loads(l) for l in open(path) if l.strip()]
