//! C10 (and helpers for C17 / C19): programs of Editor.tla interpreted with the real
//! RepositoryEditor, written to disk, and loaded back by the real client.

use crate::base::*;
use crate::mem::MemTransport;
use crate::util::*;
use serde_json::{json, Value};
use std::collections::{BTreeMap, HashMap};
use std::num::NonZeroU64;
use std::path::{Path, PathBuf};
use tough::editor::signed::PathExists;
use tough::editor::RepositoryEditor;
use tough::key_source::{KeySource, LocalKeySource};
use tough::schema::{PathPattern, PathSet, Target};
use tough::TargetName;

pub const EXP: i64 = BASE_TIME + 3650 * DAY;

pub fn concrete(n: &str) -> &'static str {
    match n {
        "t1" => "docs/read me.txt",
        "t2" => "bin/tool-\u{e9}.bin",
        "t3" => "plain.dat",
        _ => "other/x",
    }
}
fn abstract_name(c: &str) -> String {
    for n in ["t1", "t2", "t3"] {
        if concrete(n) == c {
            return n.to_string();
        }
    }
    c.to_string()
}
pub fn content_for(n: &str, variant: usize) -> Vec<u8> {
    let size = match (n, variant % 3) {
        ("t1", 0) => 0,
        ("t1", _) => 3000,
        ("t2", 1) => 32 * 1024,
        ("t2", _) => 17,
        _ => 1000 + variant % 7,
    };
    (0..size).map(|i| ((i * 31 + n.len() * 7 + variant) % 251) as u8).collect()
}
fn paths_for(m: &[String]) -> PathSet {
    let mut ps = Vec::new();
    for n in m {
        let c = concrete(n);
        if c.contains('/') {
            ps.push(PathPattern::new(format!("{}/*", c.split('/').next().unwrap())).unwrap());
        } else {
            ps.push(PathPattern::new(c).unwrap());
        }
    }
    if ps.is_empty() {
        ps.push(PathPattern::new("nothing-here/*").unwrap());
    }
    PathSet::Paths(ps)
}

pub struct Env {
    pub dir: tempfile::TempDir,
    pub root_path: PathBuf,
    pub keyfiles: HashMap<u64, PathBuf>,
    pub src: PathBuf,
}

pub fn env(consistent: bool, variant: usize) -> Env {
    let dir = scratch("editor");
    let mut keyfiles = HashMap::new();
    for n in [100u64, 101, 102, 103, 110, 111, 112] {
        let p = dir.path().join(format!("k{n}"));
        std::fs::write(&p, ed_key(n).private_file).unwrap();
        keyfiles.insert(n, p);
    }
    let (r, t, s, g) = (ed_key(100), ed_key(101), ed_key(102), ed_key(103));
    let root = root_signed(1, EXP, consistent, &[&r, &t, &s, &g], &[
        ("root", vec![r.keyid.clone()], 1), ("timestamp", vec![t.keyid.clone()], 1),
        ("snapshot", vec![s.keyid.clone()], 1), ("targets", vec![g.keyid.clone()], 1)]);
    let root_path = dir.path().join("root.json");
    std::fs::write(&root_path, to_bytes(&envelope(&root, &[&r]))).unwrap();
    let src = dir.path().join("src");
    for n in ["t1", "t2", "t3"] {
        let p = src.join(concrete(n));
        std::fs::create_dir_all(p.parent().unwrap()).unwrap();
        std::fs::write(&p, content_for(n, variant)).unwrap();
    }
    Env { dir, root_path, keyfiles, src }
}

pub fn sources(e: &Env, ks: &[u64]) -> Vec<Box<dyn KeySource>> {
    ks.iter().map(|k| Box::new(LocalKeySource { path: e.keyfiles[k].clone() }) as Box<dyn KeySource>).collect()
}
fn nums(v: &Value) -> Vec<u64> {
    v.as_array().map(|a| a.iter().map(|x| x.as_u64().unwrap()).collect()).unwrap_or_default()
}
fn strs(v: &Value) -> Vec<String> {
    v.as_array().map(|a| a.iter().map(|x| x.as_str().unwrap().to_string()).collect()).unwrap_or_default()
}
pub fn exp_dt() -> chrono::DateTime<chrono::Utc> {
    chrono::DateTime::<chrono::Utc>::from_timestamp(EXP, 0).unwrap()
}
/// a different expiration for every role, so that a mix-up between roles shows
pub fn exp_of(role: &str) -> chrono::DateTime<chrono::Utc> {
    let d = match role { "timestamp" => 1, "snapshot" => 2, "targets" => 3, "d1" => 4, "d2" => 5, _ => 6 };
    chrono::DateTime::<chrono::Utc>::from_timestamp(EXP + d * DAY, 0).unwrap()
}
const SN_VERSION: u64 = 7;
const TS_VERSION: u64 = 9;
fn nz(n: u64) -> NonZeroU64 {
    NonZeroU64::new(n).unwrap()
}

/// Serve a directory tree like a web server would.
pub fn serve_dir(t: &MemTransport, prefix: &str, dir: &Path) {
    fn walk(t: &MemTransport, prefix: &str, base: &Path, p: &Path) {
        if let Ok(rd) = std::fs::read_dir(p) {
            for e in rd.flatten() {
                let path = e.path();
                if path.is_dir() {
                    walk(t, prefix, base, &path);
                } else if let Ok(data) = std::fs::read(&path) {
                    let rel = path.strip_prefix(base).unwrap().to_string_lossy().to_string();
                    t.put_body(&format!("{prefix}/{rel}"), data);
                }
            }
        }
    }
    walk(t, prefix, dir, dir);
}

/// What a loaded repository shows, in the vocabulary of Editor.tla's View.
pub fn view_of(repo: &tough::Repository) -> Value {
    let keynum: HashMap<String, u64> = [110u64, 111, 112, 103].iter().map(|n| (ed_key(*n).keyid, *n)).collect();
    let mut names: Vec<String> = repo.targets().signed.targets.keys().map(|k| abstract_name(k.raw())).collect();
    names.sort();
    let mut roles = serde_json::Map::new();
    for d in ["d1", "d2"] {
        let v = match repo.delegated_role(d) {
            None => json!({"names": [], "version": 0, "thr": 0, "keys": [], "parent": "none"}),
            Some(dr) => {
                let mut ns: Vec<String> = dr.targets.as_ref().map(|t| t.signed.targets.keys().map(|k| abstract_name(k.raw())).collect()).unwrap_or_default();
                ns.sort();
                let mut ks: Vec<u64> = dr.keyids.iter().map(|k| *keynum.get(&hex::encode(k)).unwrap_or(&0)).collect();
                ks.sort();
                let parent = if repo.targets().signed.delegations.as_ref().map(|x| x.roles.iter().any(|r| r.name == d)).unwrap_or(false) { "targets" } else { "d1" };
                json!({"names": ns, "version": dr.targets.as_ref().map(|t| t.signed.version.get()).unwrap_or(0),
                       "thr": dr.threshold.get(), "keys": ks, "parent": parent})
            }
        };
        roles.insert(d.to_string(), v);
    }
    json!({"targets": names, "tversion": repo.targets().signed.version.get(), "roles": roles})
}

pub async fn run_program(p: &Value, consistent: bool, variant: usize) -> Value {
    let e = env(consistent, variant);
    let ops = p["ops"].as_array().unwrap();
    let mut versions: BTreeMap<String, u64> = BTreeMap::new();
    versions.insert("targets".into(), 1);
    let mut editing = "targets".to_string();
    let mut ed = match RepositoryEditor::new(&e.root_path).await {
        Ok(x) => x,
        Err(err) => return json!({"stage":"new","err":format!("{err}")}),
    };
    ed.snapshot_version(nz(SN_VERSION)).snapshot_expires(exp_of("snapshot")).timestamp_version(nz(TS_VERSION)).timestamp_expires(exp_of("timestamp"));
    let mut signed_repo = None;
    for (i, op) in ops.iter().enumerate() {
        let name = op["op"].as_str().unwrap();
        let r: Result<(), String> = async {
            match name {
                "add_target" => {
                    let n = op["name"].as_str().unwrap();
                    let t = Target::from_path(e.src.join(concrete(n))).await.map_err(|x| x.to_string())?;
                    ed.add_target(concrete(n), t).map_err(|x| x.to_string())?;
                }
                "remove_target" => {
                    let n = op["name"].as_str().unwrap();
                    ed.remove_target(&TargetName::new(concrete(n)).unwrap()).map_err(|x| x.to_string())?;
                }
                "clear_targets" => {
                    ed.clear_targets().map_err(|x| x.to_string())?;
                }
                "version" => {
                    *versions.entry(editing.clone()).or_insert(1) += 1;
                }
                "delegate_role" => {
                    let d = op["name"].as_str().unwrap();
                    let ks = nums(&op["keys"]);
                    ed.delegate_role(d, &sources(&e, &ks), paths_for(&strs(&op["m"])), nz(op["thr"].as_u64().unwrap()), exp_of(d), nz(1))
                        .await.map_err(|x| x.to_string())?;
                    versions.insert(d.to_string(), 1);
                }
                "sign_targets_editor" => {
                    let v = *versions.get(&editing).unwrap_or(&1);
                    ed.targets_version(nz(v)).map_err(|x| x.to_string())?.targets_expires(exp_of(&editing)).map_err(|x| x.to_string())?;
                    ed.sign_targets_editor(&sources(&e, &nums(&op["keys"]))).await.map_err(|x| x.to_string())?;
                    editing = "none".into();
                }
                "change_delegated_targets" => {
                    let r = op["role"].as_str().unwrap();
                    ed.change_delegated_targets(r).map_err(|x| x.to_string())?;
                    editing = r.to_string();
                }
                "sign" => {
                    if editing != "none" {
                        let v = *versions.get(&editing).unwrap_or(&1);
                        ed.targets_version(nz(v)).map_err(|x| x.to_string())?.targets_expires(exp_of(&editing)).map_err(|x| x.to_string())?;
                    }
                }
                x => return Err(format!("unknown op {x}")),
            }
            Ok(())
        }.await;
        if let Err(err) = r {
            return json!({"stage":"op","index":i,"op":op,"err":err});
        }
        if name == "sign" {
            let keys = sources(&e, &nums(&op["keys"]));
            match guard(ed.sign(&keys)).await {
                Err(pn) => return json!({"stage":"sign","err":format!("panic:{pn}")}),
                Ok(Err(err)) => return json!({"stage":"sign","err":format!("{err}")}),
                Ok(Ok(sr)) => signed_repo = Some(sr),
            }
            break;
        }
    }
    let sr = match signed_repo {
        Some(s) => s,
        None => return json!({"stage":"nosign"}),
    };
    let out = e.dir.path().join("repo");
    let md = out.join("metadata");
    let tg = out.join("targets");
    if let Err(err) = sr.write(&md).await {
        return json!({"stage":"write","err":format!("{err}")});
    }
    // publish every target the model says exists, by copy or by symlink
    let mut all_names: Vec<String> = strs(&p["view"]["targets"]);
    for d in ["d1", "d2"] {
        all_names.extend(strs(&p["view"]["roles"][d]["names"]));
    }
    all_names.sort();
    all_names.dedup();
    std::fs::create_dir_all(&tg).unwrap();
    let mut publish_err = Vec::new();
    for (j, n) in all_names.iter().enumerate() {
        let tn = TargetName::new(concrete(n)).unwrap();
        let src = e.src.join(concrete(n));
        // copy_target / link_target do not create the directories of a target name with directory
        // components: the publisher prepares them
        let rel = if consistent { format!("{}.{}", sha256_hex(&content_for(n, variant)), concrete(n)) } else { concrete(n).to_string() };
        if let Some(parent) = tg.join(&rel).parent() {
            let _ = std::fs::create_dir_all(parent);
        }
        let r = if (variant + j) % 2 == 0 {
            sr.copy_target(&src, &tg, PathExists::Skip, Some(&tn)).await
        } else {
            sr.link_target(&src, &tg, PathExists::Skip, Some(&tn)).await
        };
        if let Err(err) = r {
            publish_err.push(format!("{n}: {err}"));
        }
    }
    // meta exactness, from the files on disk
    let file = |n: &str| -> Option<Vec<u8>> { std::fs::read(md.join(n)).ok() };
    let pre = |v: u64, n: &str| if consistent { format!("{v}.{n}") } else { n.to_string() };
    let ts: Value = file("timestamp.json").and_then(|b| serde_json::from_slice(&b).ok()).unwrap_or(Value::Null);
    let snv = ts["signed"]["meta"]["snapshot.json"]["version"].as_u64().unwrap_or(0);
    let sn_bytes = file(&pre(snv, "snapshot.json")).unwrap_or_default();
    let sn: Value = serde_json::from_slice(&sn_bytes).unwrap_or(Value::Null);
    let mut meta_ok = ts["signed"]["meta"]["snapshot.json"]["length"].as_u64() == Some(sn_bytes.len() as u64)
        && ts["signed"]["meta"]["snapshot.json"]["hashes"]["sha256"].as_str() == Some(&sha256_hex(&sn_bytes));
    let mut meta_detail = Vec::new();
    if let Some(m) = sn["signed"]["meta"].as_object() {
        for (fname, entry) in m {
            let v = entry["version"].as_u64().unwrap_or(0);
            let role = fname.trim_end_matches(".json");
            let disk = if role == "targets" { pre(v, "targets.json") } else { pre(v, fname) };
            let bytes = file(&disk).unwrap_or_default();
            let doc: Value = serde_json::from_slice(&bytes).unwrap_or(Value::Null);
            let ok = entry["length"].as_u64() == Some(bytes.len() as u64)
                && entry["hashes"]["sha256"].as_str() == Some(&sha256_hex(&bytes))
                && doc["signed"]["version"].as_u64() == Some(v);
            if !ok {
                meta_ok = false;
                meta_detail.push(format!("{fname}: listed {entry} file {} bytes", bytes.len()));
            }
        }
    } else {
        meta_ok = false;
    }
    // load back: over a web-server-like transport, and through file:// URLs
    let t = MemTransport::new();
    serve_dir(&t, "metadata", &md);
    serve_dir(&t, "targets", &tg);
    let shipped = std::fs::read(&e.root_path).unwrap();
    let mut downloads = serde_json::Map::new();
    let mut put_problems: Vec<String> = Vec::new();
    let (loaded, cls, view) = match guard(load(&shipped, &t, None, None, true)).await {
        Err(pn) => (false, format!("panic:{pn}"), Value::Null),
        Ok(Err(err)) => (false, format!("{}: {}", classify(&err), format!("{err}").chars().take(200).collect::<String>()), Value::Null),
        Ok(Ok(repo)) => {
            for n in &all_names {
                use tough::IntoVec;
                let tn = TargetName::new(concrete(n)).unwrap();
                let r = match repo.read_target(&tn).await {
                    Ok(Some(s)) => match s.into_vec().await {
                        Ok(b) => if b == content_for(n, variant) { "ok".to_string() } else { "wrong-bytes".to_string() },
                        Err(er) => format!("err:{}", classify(&er)),
                    },
                    Ok(None) => "none".to_string(),
                    Err(er) => format!("err:{}", classify(&er)),
                };
                downloads.insert(n.clone(), json!(r));
            }
            // versions and expirations of every role as they were put in
            if repo.timestamp().signed.version.get() != TS_VERSION || repo.timestamp().signed.expires != exp_of("timestamp") {
                put_problems.push(format!("timestamp: version {} expires {}", repo.timestamp().signed.version, repo.timestamp().signed.expires));
            }
            if repo.snapshot().signed.version.get() != SN_VERSION || repo.snapshot().signed.expires != exp_of("snapshot") {
                put_problems.push(format!("snapshot: version {} expires {}", repo.snapshot().signed.version, repo.snapshot().signed.expires));
            }
            if repo.targets().signed.expires != exp_of("targets") {
                put_problems.push(format!("targets: expires {}", repo.targets().signed.expires));
            }
            for d in ["d1", "d2"] {
                if let Some(t) = repo.delegated_role(d).and_then(|r| r.targets.as_ref()) {
                    if t.signed.expires != exp_of(d) {
                        put_problems.push(format!("{d}: expires {}", t.signed.expires));
                    }
                }
            }
            (true, "ok".to_string(), view_of(&repo))
        }
    };
    // the same through FilesystemTransport
    let mut fs_downloads = serde_json::Map::new();
    let fs_loaded = {
        let mu = url::Url::from_directory_path(&md).unwrap();
        let tu = url::Url::from_directory_path(&tg).unwrap();
        match tough::RepositoryLoader::new(&shipped, mu, tu).load().await {
            Err(er) => format!("err:{}", classify(&er)),
            Ok(repo) => {
                for n in &all_names {
                    use tough::IntoVec;
                    let tn = TargetName::new(concrete(n)).unwrap();
                    let r = match repo.read_target(&tn).await {
                        Ok(Some(s)) => match s.into_vec().await { Ok(_) => "ok".to_string(), Err(er) => format!("err:{}", classify(&er)) },
                        Ok(None) => "none".to_string(),
                        Err(er) => format!("err:{}", classify(&er)),
                    };
                    fs_downloads.insert(n.clone(), json!(r));
                }
                "ok".to_string()
            }
        }
    };
    json!({"stage":"done","loaded":loaded,"cls":cls,"view":view,"downloads":downloads,"publish_err":publish_err,
           "meta_ok":meta_ok,"meta_detail":meta_detail,"fs_loaded":fs_loaded,"fs_downloads":fs_downloads,"put_problems":put_problems})
}

pub fn run(args: &[String]) {
    let progs = read_ndjson(&arg(args, "--programs").expect("--programs"));
    let out = arg(args, "--out").expect("--out");
    let rows = par_map(progs, threads(), move |i, p| async move {
        let consistent = i % 2 == 1;
        let r = match guard(run_program(&p, consistent, i)).await {
            Ok(v) => v,
            Err(pn) => json!({"stage":"panic","err":pn}),
        };
        json!({"p": p, "consistent": consistent, "variant": i, "obs": r})
    });
    write_ndjson(&out, &rows);
}

// ---------------------------------------------------------------------------------------------
// cross-party flow: update_delegated_targets with incoming metadata (EditorX.tla)

async fn xparty_case(c: &Value, variant: usize) -> Value {
    use serde_json::Map;
    let consistent = variant % 2 == 1;
    let e = env(consistent, variant);
    let thr = c["thr"].as_u64().unwrap();
    let cur = c["cur"].as_u64().unwrap();
    let inc = c["inc"].as_u64().unwrap();
    let signers = nums(&c["signers"]);
    let twice = c["twice"].as_bool().unwrap();
    let r: Result<Value, String> = async {
        let mut ed = RepositoryEditor::new(&e.root_path).await.map_err(|x| format!("new: {x}"))?;
        ed.snapshot_version(nz(1)).snapshot_expires(exp_dt()).timestamp_version(nz(1)).timestamp_expires(exp_dt());
        ed.targets_version(nz(1)).map_err(|x| x.to_string())?.targets_expires(exp_dt()).map_err(|x| x.to_string())?;
        ed.delegate_role("d1", &sources(&e, &[110, 111]), paths_for(&["t1".into(), "t2".into(), "t3".into()]), nz(thr), exp_dt(), nz(1))
            .await.map_err(|x| format!("delegate: {x}"))?;
        ed.sign_targets_editor(&sources(&e, &[103])).await.map_err(|x| format!("sign top: {x}"))?;
        ed.change_delegated_targets("d1").map_err(|x| format!("change: {x}"))?;
        ed.targets_version(nz(cur)).map_err(|x| x.to_string())?.targets_expires(exp_dt()).map_err(|x| x.to_string())?;
        let t1 = Target::from_path(e.src.join(concrete("t1"))).await.map_err(|x| x.to_string())?;
        ed.add_target(concrete("t1"), t1).map_err(|x| x.to_string())?;
        let sr = ed.sign(&sources(&e, &[101, 102, 103, 110, 111])).await.map_err(|x| format!("sign: {x}"))?;
        let md = e.dir.path().join("repo/metadata");
        sr.write(&md).await.map_err(|x| format!("write: {x}"))?;
        let t = MemTransport::new();
        serve_dir(&t, "metadata", &md);
        let shipped = std::fs::read(&e.root_path).unwrap();
        let repo = load(&shipped, &t, None, None, true).await.map_err(|x| format!("load: {x}"))?;
        // the incoming document, built and signed independently of the editor
        let mut entries = Map::new();
        entries.insert(concrete("t3").to_string(), target_entry(&content_for("t3", variant)));
        let signed = targets_signed(inc, EXP, entries, Some(json!({"keys": {}, "roles": []})));
        let msg = canon(&signed);
        let mut sigs: Vec<Value> = Vec::new();
        for (i, k) in signers.iter().enumerate() {
            let key = ed_key(*k);
            sigs.push(key.sig_entry(&msg));
            if twice && i == 0 {
                sigs.push(key.sig_entry(&msg));
            }
        }
        t.put_body("incoming/d1.json", to_bytes(&envelope_sigs(&signed, sigs)));
        let mut ed2 = RepositoryEditor::from_repo(&e.root_path, repo).await.map_err(|x| format!("from_repo: {x}"))?;
        let res = ed2.update_delegated_targets("d1", "mem://r/incoming/").await.map(|_| ()).map_err(|x| x.to_string());
        let accepted = res.is_ok();
        let mut after = Value::Null;
        if accepted {
            ed2.snapshot_version(nz(2)).snapshot_expires(exp_dt()).timestamp_version(nz(2)).timestamp_expires(exp_dt());
            let sr2 = ed2.sign(&sources(&e, &[101, 102, 103])).await.map_err(|x| format!("sign after update: {x}"))?;
            let md2 = e.dir.path().join("repo2/metadata");
            sr2.write(&md2).await.map_err(|x| format!("write2: {x}"))?;
            let t2 = MemTransport::new();
            serve_dir(&t2, "metadata", &md2);
            after = match load(&shipped, &t2, None, None, true).await {
                Ok(rp) => json!({"loaded": true, "view": view_of(&rp)}),
                Err(er) => json!({"loaded": false, "cls": format!("{}: {er}", classify(&er))}),
            };
        }
        Ok(json!({"accepted": accepted, "err": res.err().unwrap_or_default().chars().take(200).collect::<String>(), "after": after}))
    }.await;
    match r {
        Ok(v) => v,
        Err(e) => json!({"setup_error": e}),
    }
}

pub fn run_xparty(args: &[String]) {
    let cases = read_ndjson(&arg(args, "--cases").expect("--cases"));
    let out = arg(args, "--out").expect("--out");
    let rows = par_map(cases, threads(), move |i, c| async move {
        let r = match guard(xparty_case(&c, i)).await {
            Ok(v) => v,
            Err(pn) => json!({"setup_error": format!("panic:{pn}")}),
        };
        json!({"in": c, "variant": i, "obs": r})
    });
    write_ndjson(&out, &rows);
}

// ---------------------------------------------------------------------------------------------
// C17: update of an existing repository preserves what was not changed (EditorUpdate.tla)

fn ed_verify(k: &K, msg: &[u8], sig_hex: &str) -> bool {
    use aws_lc_rs::signature::{KeyPair, UnparsedPublicKey, ED25519};
    if let (Kp::Ed(kp), Ok(sig)) = (&k.kp, hex::decode(sig_hex)) {
        return UnparsedPublicKey::new(&ED25519, kp.public_key().as_ref()).verify(msg, &sig).is_ok();
    }
    false
}

async fn update_case(c: &Value, variant: usize) -> Value {
    use serde_json::Map;
    let consistent = variant % 2 == 1;
    let e = env(consistent, variant);
    let has: Vec<String> = strs(&c["has"]);
    let h = |f: &str| has.iter().any(|x| x == f);
    let nadd = c["nadd"].as_u64().unwrap() as usize;
    let (ts, sn, tg, d) = (ed_key(101), ed_key(102), ed_key(103), ed_key(110));
    // ---- the input repository, built independently of the editor
    let mut entries = Map::new();
    let mut e1 = target_entry(&content_for("t1", variant));
    if h("custom") {
        e1["custom"] = json!({"k": [1, {"z": true}], "s": "v"});
    }
    entries.insert(concrete("t1").into(), e1);
    entries.insert(concrete("t3").into(), target_entry(&content_for("t3", variant)));
    let dcontent = b"delegated content".to_vec();
    let mut dentries = Map::new();
    dentries.insert("d/x.bin".into(), target_entry(&dcontent));
    // second level: d delegates d/e/* to e
    let ek = ed_key(111);
    let mut eentries = Map::new();
    eentries.insert("d/e/y.bin".into(), target_entry(b"second level content"));
    let mut es = targets_signed(7, EXP, eentries, None);
    if h("delegated-extra") {
        es["x-e-extra"] = json!({"kept": ["for e", 2]});
    }
    let e_env = envelope(&es, &[&ek]);
    let e_bytes = to_bytes(&e_env);
    let ddeleg = if h("nested") {
        Some(delegations_json(&[&ek], vec![delegated_role_json("e", &[ek.keyid.clone()], 1, &["d/e/*"], false)]))
    } else {
        None
    };
    let mut ds = targets_signed(4, EXP, dentries, ddeleg);
    if h("delegated-extra") {
        ds["x-d-extra"] = json!("kept for d");
    }
    let d_env = envelope(&ds, &[&d]);
    let d_bytes = to_bytes(&d_env);
    let delegations = if h("delegation") {
        Some(delegations_json(&[&d], vec![delegated_role_json("d", &[d.keyid.clone()], 1, &["d/*"], false)]))
    } else {
        Some(json!({"keys": {}, "roles": []}))
    };
    let mut tgs = targets_signed(1, EXP, entries, delegations);
    if h("targets-extra") {
        tgs["x-targets-extra"] = json!({"note": ["kept", 1]});
    }
    let tg_bytes = to_bytes(&envelope(&tgs, &[&tg]));
    let mut meta = Map::new();
    meta.insert("targets.json".into(), meta_entry(1, Some(tg_bytes.len() as u64), Some(&sha256_hex(&tg_bytes))));
    if h("delegation") {
        meta.insert("d.json".into(), meta_entry(4, Some(d_bytes.len() as u64), Some(&sha256_hex(&d_bytes))));
        if h("nested") {
            meta.insert("e.json".into(), meta_entry(7, Some(e_bytes.len() as u64), Some(&sha256_hex(&e_bytes))));
        }
    }
    let mut sns = snapshot_signed(1, EXP, meta);
    if h("snapshot-extra") {
        sns["x-snapshot-extra"] = json!("kept too");
    }
    let sn_bytes = to_bytes(&envelope(&sns, &[&sn]));
    let mut tss = timestamp_signed(1, EXP, meta_entry(1, Some(sn_bytes.len() as u64), Some(&sha256_hex(&sn_bytes))));
    if h("timestamp-extra") {
        tss["x-timestamp-extra"] = json!([true]);
    }
    let t = MemTransport::new();
    let pre = |v: u64, n: &str| if consistent { format!("metadata/{v}.{n}") } else { format!("metadata/{n}") };
    t.put_body(&pre(1, "targets.json"), tg_bytes);
    t.put_body(&pre(4, "d.json"), d_bytes.clone());
    t.put_body(&pre(7, "e.json"), e_bytes.clone());
    t.put_body(&pre(1, "snapshot.json"), sn_bytes);
    t.put_body("metadata/timestamp.json", to_bytes(&envelope(&tss, &[&ts])));
    let shipped = std::fs::read(&e.root_path).unwrap();
    let r: Result<Value, String> = async {
        let repo = load(&shipped, &t, None, None, true).await.map_err(|x| format!("load input: {x}"))?;
        let mut ed = RepositoryEditor::from_repo(&e.root_path, repo).await.map_err(|x| format!("from_repo: {x}"))?;
        ed.targets_version(nz(2)).map_err(|x| x.to_string())?.targets_expires(exp_dt()).map_err(|x| x.to_string())?;
        ed.snapshot_version(nz(2)).snapshot_expires(exp_dt()).timestamp_version(nz(2)).timestamp_expires(exp_dt());
        let added: Vec<&str> = ["t2", "t4"].iter().take(nadd).cloned().collect();
        for n in &added {
            let (name, src) = if *n == "t2" { (concrete("t2").to_string(), e.src.join(concrete("t2"))) } else {
                let p = e.src.join("new2.dat");
                std::fs::write(&p, b"a new file").unwrap();
                ("new2.dat".to_string(), p)
            };
            let tgt = Target::from_path(&src).await.map_err(|x| x.to_string())?;
            ed.add_target(name, tgt).map_err(|x| x.to_string())?;
        }
        let sr = ed.sign(&sources(&e, &[101, 102, 103])).await.map_err(|x| format!("sign: {x}"))?;
        let md = e.dir.path().join("out");
        sr.write(&md).await.map_err(|x| format!("write: {x}"))?;
        let rd = |n: &str| -> Value { std::fs::read(md.join(n)).ok().and_then(|b| serde_json::from_slice(&b).ok()).unwrap_or(Value::Null) };
        let pf = |v: u64, n: &str| if consistent { format!("{v}.{n}") } else { n.to_string() };
        let otg = rd(&pf(2, "targets.json"));
        let osn = rd(&pf(2, "snapshot.json"));
        let ots = rd("timestamp.json");
        let od = rd(&pf(4, "d.json"));
        let mut kept: Vec<&str> = Vec::new();
        let mut problems: Vec<String> = Vec::new();
        // targets: every input entry unchanged, plus exactly the added ones
        let it = tgs["targets"].as_object().unwrap();
        let ot = otg["signed"]["targets"].as_object().cloned().unwrap_or_default();
        for (k, v) in it {
            if ot.get(k) != Some(v) {
                problems.push(format!("target {k}: {:?} became {:?}", v, ot.get(k)));
            }
        }
        if ot.len() != it.len() + added.len() {
            problems.push(format!("{} targets in, {} added, {} out", it.len(), added.len(), ot.len()));
        }
        if h("custom") && ot.get(concrete("t1")).map(|x| &x["custom"]) == Some(&it[concrete("t1")]["custom"]) { kept.push("custom"); }
        if h("targets-extra") && otg["signed"]["x-targets-extra"] == tgs["x-targets-extra"] { kept.push("targets-extra"); }
        if h("snapshot-extra") && osn["signed"]["x-snapshot-extra"] == sns["x-snapshot-extra"] { kept.push("snapshot-extra"); }
        if h("timestamp-extra") && ots["signed"]["x-timestamp-extra"] == tss["x-timestamp-extra"] { kept.push("timestamp-extra"); }
        if h("delegation") {
            let same_structure = otg["signed"]["delegations"] == tgs["delegations"];
            let same_file = od == d_env;
            let sig_ok = od["signatures"].as_array().map(|a| a.iter().any(|s| ed_verify(&d, &canon(&od["signed"]), s["sig"].as_str().unwrap_or("")))).unwrap_or(false);
            let listed = osn["signed"]["meta"]["d.json"]["version"] == json!(4);
            if same_structure && same_file && sig_ok && listed { kept.push("delegation"); } else {
                problems.push(format!("delegation: structure kept={same_structure} file identical={same_file} signature valid={sig_ok} listed in snapshot={listed}"));
            }
            if h("delegated-extra") {
                if od["signed"]["x-d-extra"] == ds["x-d-extra"] && (!h("nested") || rd(&pf(7, "e.json"))["signed"]["x-e-extra"] == es["x-e-extra"]) { kept.push("delegated-extra"); }
            }
            if h("nested") {
                let oe = rd(&pf(7, "e.json"));
                let same_file = oe == e_env;
                let sig_ok = oe["signatures"].as_array().map(|a| a.iter().any(|s| ed_verify(&ek, &canon(&oe["signed"]), s["sig"].as_str().unwrap_or("")))).unwrap_or(false);
                let listed = osn["signed"]["meta"]["e.json"]["version"] == json!(7);
                if same_file && sig_ok && listed { kept.push("nested"); } else {
                    problems.push(format!("second-level role: file identical={same_file} signature valid={sig_ok} listed in snapshot={listed}"));
                }
            }
        } else if otg["signed"]["delegations"] != tgs["delegations"] {
            problems.push("empty delegations object changed".into());
        }
        if otg["signed"]["version"] != json!(2) || osn["signed"]["version"] != json!(2) || ots["signed"]["version"] != json!(2) {
            problems.push("versions were not set".into());
        }
        // every role's content and signatures still valid: a client holding the root loads the result
        match tough::RepositoryLoader::new(&shipped, url::Url::from_directory_path(&md).unwrap(), url::Url::from_directory_path(&md).unwrap()).load().await {
            Ok(_) => {}
            Err(x) => problems.push(format!("the updated repository does not load: {}", classify(&x))),
        }
        Ok(json!({"kept": kept, "problems": problems}))
    }.await;
    match r {
        Ok(v) => v,
        Err(er) => json!({"error": er}),
    }
}

pub fn run_update(args: &[String]) {
    let cases = read_ndjson(&arg(args, "--cases").expect("--cases"));
    let out = arg(args, "--out").expect("--out");
    let rows = par_map(cases, threads(), move |i, c| async move {
        let r = match guard(update_case(&c, i)).await {
            Ok(v) => v,
            Err(pn) => json!({"error": format!("panic:{pn}")}),
        };
        json!({"in": c, "variant": i, "obs": r})
    });
    write_ndjson(&out, &rows);
}
