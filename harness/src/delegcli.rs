//! DelegCli.tla behaviours replayed through the `tuftool delegation ...` and `tuftool update --role`
//! commands; after every command the published repository is inspected independently (raw JSON,
//! signatures re-verified with the harness's own code) and loaded with a fresh client.

use crate::base::*;
use crate::lifecycle::signed_by;
use crate::util::*;
use serde_json::{json, Map, Value};
use std::collections::BTreeMap;
use std::path::{Path, PathBuf};
use std::process::Command;
use tough::{RepositoryLoader, TargetName};
use url::Url;

const FAR: &str = "2090-01-01T00:00:00Z";
const ROOT_EXP: i64 = BASE_TIME + 20000 * DAY;

struct World {
    dir: tempfile::TempDir,
    tuftool: String,
    keys: BTreeMap<u64, (K, PathBuf)>, // 0 = owner, 1 = KA, 2 = KA2, 3 = KB, 4 = KB2
    root: PathBuf,
    staged: BTreeMap<String, PathBuf>, // "A" | "B" | "T" -> latest staging directory
    cur: (u64, u64, u64),              // ts, sn, tg as the model has them
    counter: u64,
}

fn content(name: &str) -> Vec<u8> {
    format!("delegated content of {name}\n{}", "x".repeat(100 + name.len() * 37)).into_bytes()
}

fn furl(p: &Path) -> String {
    let mut u = Url::from_directory_path(p).expect("dir url").to_string();
    if !u.ends_with('/') {
        u.push('/');
    }
    u
}

impl World {
    fn new(tuftool: &str) -> World {
        let dir = scratch("dcli");
        let kd = dir.path().join("keys");
        std::fs::create_dir_all(&kd).unwrap();
        let mut keys = BTreeMap::new();
        for n in 0u64..5 {
            let k = ed_key(920 + n);
            let f = kd.join(format!("k{n}"));
            std::fs::write(&f, &k.private_file).unwrap();
            keys.insert(n, (k, f));
        }
        let o = &keys[&0].0;
        let id = vec![o.keyid.clone()];
        let signed = root_signed(1, ROOT_EXP, true, &[o], &[("root", id.clone(), 1), ("timestamp", id.clone(), 1), ("snapshot", id.clone(), 1), ("targets", id, 1)]);
        let root = dir.path().join("root.json");
        std::fs::write(&root, to_bytes(&envelope(&signed, &[o]))).unwrap();
        World { dir, tuftool: tuftool.to_string(), keys, root, staged: BTreeMap::new(), cur: (1, 1, 1), counter: 0 }
    }
    fn p(&self, s: &str) -> PathBuf {
        self.dir.path().join(s)
    }
    fn s(&self, p: &Path) -> String {
        p.to_str().unwrap().to_string()
    }
    fn fresh(&mut self, tag: &str) -> PathBuf {
        self.counter += 1;
        let d = self.p(&format!("{tag}{}", self.counter));
        std::fs::create_dir_all(&d).unwrap();
        d
    }
    fn kargs(&self, ks: &Value) -> Vec<String> {
        let mut v = Vec::new();
        for k in ks.as_array().unwrap() {
            v.push("-k".to_string());
            v.push(self.s(&self.keys[&k.as_u64().unwrap()].1));
        }
        v
    }
    fn owner(&self) -> Vec<String> {
        vec!["-k".into(), self.s(&self.keys[&0].1)]
    }
    fn tt(&self, args: &[String]) -> (bool, String) {
        let o = Command::new(&self.tuftool).args(args).current_dir(self.dir.path()).env_remove("RUST_BACKTRACE").output().expect("run tuftool");
        let txt = format!("{}{}", String::from_utf8_lossy(&o.stdout), String::from_utf8_lossy(&o.stderr));
        (o.status.success(), txt.chars().take(400).collect())
    }
    fn repo_args(&self) -> Vec<String> {
        vec!["--root".into(), self.s(&self.root), "--metadata-url".into(), furl(&self.p("repo/metadata"))]
    }
    fn key_num(&self, id: &str) -> u64 {
        self.keys.iter().find(|(_, (k, _))| k.keyid == id.to_lowercase()).map(|(n, _)| *n).unwrap_or(99)
    }
}

fn read_json(p: &Path) -> Option<Value> {
    serde_json::from_slice(&std::fs::read(p).ok()?).ok()
}

/// delegation of `name` in a targets-type document: (keys, threshold)
fn delegation_of(w: &World, doc: &Value, name: &str) -> Option<(Vec<u64>, u64)> {
    let roles = doc["signed"]["delegations"]["roles"].as_array()?;
    let r = roles.iter().find(|r| r["name"] == name)?;
    let mut ks: Vec<u64> = r["keyids"].as_array()?.iter().map(|x| w.key_num(x.as_str().unwrap_or(""))).collect();
    ks.sort();
    ks.dedup();
    Some((ks, r["threshold"].as_u64().unwrap_or(0)))
}

fn role_view(w: &World, md: &Path, sn: &Value, parent: &Value, name: &str) -> Value {
    let none = json!({"ver": 0, "names": [], "keys": [], "thr": 0});
    let (keys, thr) = match delegation_of(w, parent, name) {
        Some(x) => x,
        None => return json!({"view": none, "signers": [], "file": false}),
    };
    let v = sn["signed"]["meta"][format!("{name}.json")]["version"].as_u64().unwrap_or(0);
    let doc = read_json(&md.join(format!("{v}.{name}.json"))).unwrap_or(Value::Null);
    let mut names: Vec<String> = doc["signed"]["targets"].as_object().map(|m| m.keys().cloned().collect()).unwrap_or_default();
    names.sort();
    let signers: Vec<u64> = keys.iter().filter(|n| w.keys.get(n).map(|(k, _)| signed_by(&doc, k)).unwrap_or(false)).cloned().collect();
    json!({"view": {"ver": doc["signed"]["version"].as_u64().unwrap_or(0), "names": names, "keys": keys, "thr": thr},
           "signers": signers, "file": doc.is_object(), "listed_version": v, "doc": doc})
}

async fn project(w: &World) -> Value {
    let md = w.p("repo/metadata");
    let td = w.p("repo/targets");
    let ts = read_json(&md.join("timestamp.json")).unwrap_or(Value::Null);
    let snv = ts["signed"]["meta"]["snapshot.json"]["version"].as_u64().unwrap_or(0);
    let sn = read_json(&md.join(format!("{snv}.snapshot.json"))).unwrap_or(Value::Null);
    let tgv = sn["signed"]["meta"]["targets.json"]["version"].as_u64().unwrap_or(0);
    let tg = read_json(&md.join(format!("{tgv}.targets.json"))).unwrap_or(Value::Null);
    let a = role_view(w, &md, &sn, &tg, "A");
    let b = if a["file"] == true { role_view(w, &md, &sn, &a["doc"], "B") } else { json!({"view": {"ver": 0, "names": [], "keys": [], "thr": 0}, "signers": [], "file": false}) };
    let view = json!({"ver": {"ts": ts["signed"]["version"].as_u64().unwrap_or(0), "sn": sn["signed"]["version"].as_u64().unwrap_or(0), "tg": tg["signed"]["version"].as_u64().unwrap_or(0)},
                      "A": a["view"], "B": b["view"]});
    // snapshot must list exactly the roles the delegation tree reaches
    let mut listed: Vec<String> = sn["signed"]["meta"].as_object().map(|m| m.keys().cloned().collect()).unwrap_or_default();
    listed.sort();
    let root = std::fs::read(&w.root).unwrap();
    let client = match RepositoryLoader::new(&root, Url::parse(&furl(&md)).unwrap(), Url::parse(&furl(&td)).unwrap()).load().await {
        Err(e) => json!({"loads": false, "err": classify(&e), "detail": format!("{e}").chars().take(240).collect::<String>()}),
        Ok(repo) => {
            let mut reads = Map::new();
            let mut all: Vec<String> = repo.all_targets().map(|(n, _)| n.raw().to_string()).collect();
            all.sort();
            for n in &all {
                use tough::IntoVec;
                let tn = TargetName::new(n.as_str()).unwrap();
                let r = match repo.read_target(&tn).await {
                    Ok(Some(s)) => match s.into_vec().await {
                        Ok(b) if b == content(n) || n == "top.txt" => "ok".to_string(),
                        Ok(_) => "DIFFERENT".to_string(),
                        Err(e) => format!("err:{}", classify(&e)),
                    },
                    Ok(None) => "none".into(),
                    Err(e) => format!("err:{}", classify(&e)),
                };
                reads.insert(n.clone(), json!(r));
            }
            json!({"loads": true, "all_targets": all, "reads": reads,
                   "A_ver": repo.delegated_role("A").and_then(|d| d.targets.as_ref()).map(|t| t.signed.version.get()),
                   "B_ver": repo.delegated_role("B").and_then(|d| d.targets.as_ref()).map(|t| t.signed.version.get())})
        }
    };
    let staged = |r: &str, f: &str| w.staged.get(r).map(|d| d.join("metadata").join(f).exists()).unwrap_or(false);
    json!({"view": view, "signers": {"A": a["signers"], "B": b["signers"]}, "snapshot_lists": listed, "client": client,
           "staged": {"A": staged("A", "A.json"), "B": staged("B", "B.json"), "T": staged("T", "targets.json")}})
}

async fn run_behaviour(tuftool: &str, c: &Value) -> Value {
    let mut w = World::new(tuftool);
    // the repository before any delegation: one top-level target, versions 1
    let ind = w.fresh("in");
    std::fs::write(ind.join("top.txt"), b"top-level target\n").unwrap();
    let mut a: Vec<String> = vec!["create".into(), "-o".into(), w.s(&w.p("repo")), "--root".into(), w.s(&w.root), "--add-targets".into(), w.s(&ind)];
    a.extend(w.owner());
    for r in ["targets", "snapshot", "timestamp"] {
        a.extend([format!("--{r}-version"), "1".into(), format!("--{r}-expires"), FAR.into()]);
    }
    let (ok, out) = w.tt(&a);
    if !ok {
        return json!({"in": c, "error": format!("setup: tuftool create failed: {out}")});
    }
    let mut steps: Vec<Value> = Vec::new();
    for s in c["steps"].as_array().unwrap() {
        let cmd = &s["cmd"];
        let act = cmd["act"].as_str().unwrap();
        let (ts, sn, tg) = (w.cur.0 + 1, w.cur.1 + 1, w.cur.2 + 1);
        let (ok, out): (bool, String) = match act {
            "create" => {
                let role = cmd["role"].as_str().unwrap().to_string();
                let d = w.fresh(&format!("st{role}"));
                let mut a: Vec<String> = vec!["delegation".into(), "--signing-role".into(), role.clone(), "create-role".into(), "-o".into(), w.s(&d), "-e".into(), FAR.into(), "-v".into(), cmd["ver"].to_string()];
                a.extend(w.kargs(&cmd["keys"]));
                let r = w.tt(&a);
                if r.0 {
                    w.staged.insert(role, d);
                }
                r
            }
            "owneradd" => {
                let empty = w.p("nothing");
                let src = w.staged.get("A").cloned().unwrap_or(empty);
                let mut a: Vec<String> = vec!["delegation".into(), "--signing-role".into(), "targets".into(), "add-role".into(), "-o".into(), w.s(&w.p("repo")),
                    "-i".into(), furl(&src.join("metadata")), "-e".into(), FAR.into(), "--delegated-role".into(), "A".into(), "-t".into(), cmd["thr"].to_string(),
                    "-v".into(), tg.to_string(), "-p".into(), "a*".into(), "--sign-all".into(),
                    "--snapshot-version".into(), sn.to_string(), "--snapshot-expires".into(), FAR.into(), "--timestamp-version".into(), ts.to_string(), "--timestamp-expires".into(), FAR.into()];
                a.extend(w.owner());
                a.extend(w.repo_args());
                w.tt(&a)
            }
            "owneraddstaged" => {
                let d = w.fresh("stT");
                let empty = w.p("nothing");
                let src = w.staged.get("A").cloned().unwrap_or(empty);
                let mut a: Vec<String> = vec!["delegation".into(), "--signing-role".into(), "targets".into(), "add-role".into(), "-o".into(), w.s(&d),
                    "-i".into(), furl(&src.join("metadata")), "-e".into(), FAR.into(), "--delegated-role".into(), "A".into(), "-t".into(), cmd["thr"].to_string(),
                    "-v".into(), cmd["ver"].to_string(), "-p".into(), "a*".into()];
                a.extend(w.owner());
                a.extend(w.repo_args());
                let r = w.tt(&a);
                if r.0 {
                    w.staged.insert("T".into(), d);
                }
                r
            }
            "update" => {
                let role = cmd["role"].as_str().unwrap().to_string();
                let d = w.fresh(&format!("st{role}"));
                let mut a: Vec<String> = vec!["delegation".into(), "--signing-role".into(), role.clone(), "update-delegated-targets".into(), "-o".into(), w.s(&d), "-e".into(), FAR.into(), "-v".into(), cmd["ver"].to_string()];
                let add: Vec<String> = cmd["add"].as_array().unwrap().iter().map(|x| x.as_str().unwrap().to_string()).collect();
                if !add.is_empty() {
                    let ind = w.fresh("in");
                    for n in &add {
                        std::fs::write(ind.join(n), content(n)).unwrap();
                    }
                    a.extend(["--add-targets".into(), w.s(&ind)]);
                }
                a.extend(w.kargs(&cmd["keys"]));
                a.extend(w.repo_args());
                let r = w.tt(&a);
                if r.0 {
                    w.staged.insert(role, d);
                }
                r
            }
            "delegadd" => {
                let d = w.fresh("stA");
                let empty = w.p("nothing");
                let src = w.staged.get("B").cloned().unwrap_or(empty);
                let mut a: Vec<String> = vec!["delegation".into(), "--signing-role".into(), "A".into(), "add-role".into(), "-o".into(), w.s(&d),
                    "-i".into(), furl(&src.join("metadata")), "-e".into(), FAR.into(), "--delegated-role".into(), "B".into(), "-t".into(), cmd["thr"].to_string(),
                    "-v".into(), cmd["ver"].to_string(), "-p".into(), "a2*".into()];
                a.extend(w.kargs(&cmd["keys"]));
                a.extend(w.repo_args());
                let r = w.tt(&a);
                if r.0 {
                    w.staged.insert("A".into(), d);
                }
                r
            }
            "addkey" | "removekey" | "removerole" => {
                let d = w.fresh("stT");
                let mut a: Vec<String> = vec!["delegation".into(), "--signing-role".into(), "targets".into()];
                match act {
                    "addkey" => a.extend(["add-key".into(), "--new-key".into(), w.s(&w.keys[&cmd["key"].as_u64().unwrap()].1), "--delegated-role".into(), "A".into()]),
                    "removekey" => a.extend(["remove-key".into(), "--keyid".into(), w.keys[&cmd["key"].as_u64().unwrap()].0.keyid.clone(), "--delegated-role".into(), "A".into()]),
                    _ => a.extend(["remove".into(), "--delegated-role".into(), "A".into()]),
                }
                a.extend(["-o".into(), w.s(&d), "-e".into(), FAR.into(), "-v".into(), cmd["ver"].to_string()]);
                a.extend(w.owner());
                a.extend(w.repo_args());
                let r = w.tt(&a);
                if r.0 {
                    w.staged.insert("T".into(), d);
                }
                r
            }
            "haddkey" | "hremovekey" | "hremoverole" => {
                let d = w.fresh("stA");
                let mut a: Vec<String> = vec!["delegation".into(), "--signing-role".into(), "A".into()];
                match act {
                    "haddkey" => a.extend(["add-key".into(), "--new-key".into(), w.s(&w.keys[&cmd["key"].as_u64().unwrap()].1), "--delegated-role".into(), "B".into()]),
                    "hremovekey" => a.extend(["remove-key".into(), "--keyid".into(), w.keys[&cmd["key"].as_u64().unwrap()].0.keyid.clone(), "--delegated-role".into(), "B".into()]),
                    _ => a.extend(["remove".into(), "--delegated-role".into(), "B".into()]),
                }
                a.extend(["-o".into(), w.s(&d), "-e".into(), FAR.into(), "-v".into(), cmd["ver"].to_string()]);
                a.extend(w.kargs(&cmd["keys"]));
                a.extend(w.repo_args());
                let r = w.tt(&a);
                if r.0 {
                    w.staged.insert("A".into(), d);
                }
                r
            }
            "incorporate" => {
                let r = cmd["role"].as_str().unwrap();
                let empty = w.p("nothing");
                std::fs::create_dir_all(empty.join("metadata")).unwrap();
                let src = w.staged.get(r).cloned().unwrap_or(empty);
                let mut a: Vec<String> = vec!["update".into(), "-o".into(), w.s(&w.p("repo")), "--role".into(), (if r == "T" { "targets" } else { r }).to_string(),
                    "-i".into(), furl(&src.join("metadata")),
                    "--targets-version".into(), tg.to_string(), "--targets-expires".into(), FAR.into(),
                    "--snapshot-version".into(), sn.to_string(), "--snapshot-expires".into(), FAR.into(),
                    "--timestamp-version".into(), ts.to_string(), "--timestamp-expires".into(), FAR.into()];
                a.extend(w.owner());
                a.extend(w.repo_args());
                let res = w.tt(&a);
                if res.0 {
                    // publish the target files the holder staged
                    if let Ok(rd) = std::fs::read_dir(src.join("targets")) {
                        std::fs::create_dir_all(w.p("repo/targets")).unwrap();
                        for e in rd.flatten() {
                            let b = std::fs::read(e.path()).unwrap_or_default();
                            let name = e.file_name().to_string_lossy().to_string();
                            // the holder's tool writes plain names; the published repository uses digest-prefixed ones
                            let _ = std::fs::write(w.p("repo/targets").join(format!("{}.{}", sha256_hex(&b), name)), &b);
                        }
                    }
                }
                res
            }
            x => panic!("act {x}"),
        };
        let mv = &s["view"]["ver"];
        w.cur = (mv["ts"].as_u64().unwrap(), mv["sn"].as_u64().unwrap(), mv["tg"].as_u64().unwrap());
        let obs = project(&w).await;
        steps.push(json!({"cmd": cmd, "ok": ok, "out": out, "obs": obs}));
    }
    json!({"in": c, "steps": steps})
}

pub fn run(args: &[String]) {
    let cases = read_ndjson(&arg(args, "--cases").expect("--cases"));
    let out = arg(args, "--out").expect("--out");
    let tuftool = arg(args, "--tuftool").expect("--tuftool");
    let rows = par_map(cases, threads().min(6), move |_, c| {
        let tuftool = tuftool.clone();
        async move {
            match guard(run_behaviour(&tuftool, &c)).await {
                Ok(v) => v,
                Err(p) => json!({"in": c, "error": format!("panic:{p}")}),
            }
        }
    });
    write_ndjson(&out, &rows);
}
