//! Replays behaviours of TufClient.tla (TLC-generated or random) through the real client and
//! records what the code did as a trace in the vocabulary of the specification.
//!
//! Behaviour (input, one JSON object per line):
//!   { "id":..., "hist":[ {ev:"start",shipped:ROOT,enforce,now}, {ev:"clock",now},
//!       {ev:"root"|"ts"|"sn"|"tg", req:[role,ver], s:DOC, now}, {ev:"read",now}, ... ],
//!     "chain":[ROOT...], "vmap":[...], "unit":N }
//! Trace (output, ndjson): reset / start / clock / root / ts / sn / tg / end / read events.

use crate::base::*;
use crate::mem::{Chunk, MemTransport, Served};
use crate::util::*;
use aws_lc_rs::signature::{UnparsedPublicKey, ED25519};
use serde_json::{json, Map, Value};
use std::collections::HashMap;
use std::sync::Arc;

pub struct Ctx {
    pub tick: i64,
    pub unit: usize,
    pub vmap: Vec<u64>, // vmap[v] = concrete version of model version v (index 0 unused)
    pub keys: HashMap<u64, K>,
}

impl Ctx {
    pub fn new(unit: usize, vmap: Vec<u64>) -> Self {
        let mut keys = HashMap::new();
        for n in 0..16u64 {
            // 12, 14: ECDSA P-256; 13, 15: RSA-PSS (algorithm changes along a root chain)
            let k = match n {
                12 | 14 => make_key("ecdsa", (n - 12) / 2),
                13 | 15 => make_key("rsa", (n - 13) / 2),
                _ => ed_key(n),
            };
            keys.insert(n, k);
        }
        Ctx { tick: DAY, unit, vmap, keys }
    }
    pub fn ver(&self, v: u64) -> u64 {
        if (v as usize) < self.vmap.len() && v > 0 {
            self.vmap[v as usize]
        } else {
            v
        }
    }
    pub fn unver(&self, c: u64) -> i64 {
        for (i, x) in self.vmap.iter().enumerate().skip(1) {
            if *x == c {
                return i as i64;
            }
        }
        if self.vmap.len() <= 1 {
            c as i64
        } else {
            -1
        }
    }
    fn k(&self, n: u64) -> &K {
        self.keys.get(&n).unwrap_or_else(|| panic!("key {n}"))
    }
    pub fn exp(&self, e: i64) -> i64 {
        BASE_TIME + e * self.tick + self.tick / 2
    }
}

fn u(v: &Value, f: &str) -> u64 {
    v[f].as_u64().unwrap_or_else(|| panic!("field {f} in {v}"))
}
fn nums(v: &Value) -> Vec<u64> {
    v.as_array()
        .map(|a| a.iter().map(|x| x.as_u64().unwrap()).collect())
        .unwrap_or_default()
}

fn pad(mut bytes: Vec<u8>, len_units: u64, unit: usize) -> Vec<u8> {
    let want = len_units as usize * unit;
    assert!(
        bytes.len() <= want || len_units == 0,
        "document of {} bytes does not fit {} units of {}",
        bytes.len(),
        len_units,
        unit
    );
    while bytes.len() < want {
        bytes.push(if bytes.len() + 1 == want { b'\n' } else { b' ' });
    }
    bytes
}

fn pin_json(ctx: &Ctx, pin: &Value) -> Option<Value> {
    let v = u(pin, "v");
    if v == 0 {
        return None;
    }
    let len = u(pin, "len");
    let h = &pin["h"];
    let sha = if h["k"] == "none" {
        None
    } else {
        Some(sha256_hex(&concretise(ctx, h).expect("pinned file is a document")))
    };
    Some(meta_entry(
        ctx.ver(v),
        if len == 0 { None } else { Some(len * ctx.unit as u64) },
        sha.as_deref(),
    ))
}

/// The signed portion and the signer keys of an abstract document.
pub fn signed_of(ctx: &Ctx, d: &Value) -> Value {
    let kind = d["k"].as_str().unwrap();
    let v = if kind == "root" { u(d, "v") } else { ctx.ver(u(d, "v")) };
    let exp = ctx.exp(d["exp"].as_i64().unwrap());
    match kind {
        "root" => {
            let mut rk = nums(&d["rk"]);
            rk.sort();
            let ts = nums(&d["ts"]);
            let sn = nums(&d["sn"]);
            let tg = nums(&d["tg"]);
            let mut all: Vec<u64> = rk.iter().chain(&ts).chain(&sn).chain(&tg).cloned().collect();
            all.sort();
            all.dedup();
            let table: Vec<&K> = all.iter().map(|n| ctx.k(*n)).collect();
            let ids = |l: &Vec<u64>| l.iter().map(|n| ctx.k(*n).keyid.clone()).collect::<Vec<_>>();
            root_signed(
                v,
                exp,
                d["cons"].as_bool().unwrap(),
                &table,
                &[
                    ("root", ids(&rk), u(d, "rthr")),
                    ("timestamp", ids(&ts), u(d, "tsthr")),
                    ("snapshot", ids(&sn), u(d, "snthr")),
                    ("targets", ids(&tg), u(d, "tgthr")),
                ],
            )
        }
        "ts" => {
            let mut s = json!({"_type":"timestamp","spec_version":"1.0.0","version":v,
                "expires":rfc3339(exp),"meta":{}});
            if let Some(p) = pin_json(ctx, &d["pin"]) {
                s["meta"]["snapshot.json"] = p;
            }
            s
        }
        "sn" => {
            let mut meta = Map::new();
            if let Some(p) = pin_json(ctx, &d["pin"]) {
                meta.insert("targets.json".into(), p);
            }
            snapshot_signed(v, exp, meta)
        }
        "tg" => targets_signed(v, exp, Map::new(), None),
        x => panic!("signed_of {x}"),
    }
}

/// Bytes of the file an abstract document stands for (None for non-documents).
pub fn concretise(ctx: &Ctx, d: &Value) -> Option<Vec<u8>> {
    let kind = d["k"].as_str().unwrap();
    match kind {
        "root" | "ts" | "sn" | "tg" => {
            let signed = signed_of(ctx, d);
            let mut signers = nums(&d["signers"]);
            signers.sort();
            let ks: Vec<&K> = signers.iter().map(|n| ctx.k(*n)).collect();
            let env = envelope(&signed, &ks);
            let bytes = if u(d, "b") == 2 { to_bytes_alt(&env) } else { to_bytes(&env) };
            Some(pad(bytes, u(d, "len"), ctx.unit))
        }
        "garbage" => Some(pad(b"{\"signed\": not json".to_vec(), u(d, "len"), ctx.unit)),
        _ => None,
    }
}

fn served_of(ctx: &Ctx, d: &Value, chunk: usize) -> Served {
    match d["k"].as_str().unwrap() {
        "absent" => Served::NotFound,
        "fetcherr" => Served::Error,
        "streamerr" => Served::Script(vec![Chunk::Data(b"{\"sig".to_vec()), Chunk::Err]),
        "endless" => Served::Endless { chunk: chunk.max(1) },
        _ => Served::Body {
            data: concretise(ctx, d).unwrap(),
            chunk,
        },
    }
}

pub fn req_name(ctx: &Ctx, req: &Value) -> String {
    let role = req[0].as_str().unwrap();
    let ver = req[1].as_u64().unwrap();
    let base = match role {
        "root" => "root.json",
        "ts" => "timestamp.json",
        "sn" => "snapshot.json",
        "tg" => "targets.json",
        x => panic!("role {x}"),
    };
    if role == "root" {
        format!("{}.{}", ver, base) // root versions in file names are the model's (see below)
    } else if ver == 0 {
        base.to_string()
    } else {
        format!("{}.{}", ctx.ver(ver), base)
    }
}

/// Parse a requested metadata file name back into [role, version prefix].
pub fn parse_name(ctx: &Ctx, name: &str) -> Value {
    let n = name.strip_prefix("metadata/").unwrap_or(name);
    let (pre, rest) = match n.split_once('.') {
        Some((p, r)) if p.chars().all(|c| c.is_ascii_digit()) && !p.is_empty() => {
            (p.parse::<u64>().ok(), r)
        }
        _ => (None, n),
    };
    let role = match rest {
        "root.json" => "root",
        "timestamp.json" => "ts",
        "snapshot.json" => "sn",
        "targets.json" => "tg",
        _ => return json!(["other", n]),
    };
    match pre {
        None => json!([role, 0]),
        Some(p) if role == "root" => json!([role, p]),
        Some(p) => json!([role, ctx.unver(p)]),
    }
}

/// Project a datastore file onto the abstract state.
fn project(ctx: &Ctx, dir: &std::path::Path, file: &str) -> Value {
    let p = dir.join(file);
    let bytes = match std::fs::read(&p) {
        Err(_) => return json!({"k":"none"}),
        Ok(b) => b,
    };
    let v: Value = match serde_json::from_slice(&bytes) {
        Err(_) => return json!({"k":"garbage"}),
        Ok(v) => v,
    };
    let signed = &v["signed"];
    if !signed.is_object() || !v["signatures"].is_array() {
        return json!({"k":"garbage"});
    }
    let msg = canon(signed);
    let mut signers = Vec::new();
    for s in v["signatures"].as_array().unwrap() {
        let kid = s["keyid"].as_str().unwrap_or("");
        for (n, k) in &ctx.keys {
            if k.keyid == kid {
                if let (Ok(sig), Kp::Ed(kp)) = (hex::decode(s["sig"].as_str().unwrap_or("")), &k.kp) {
                    use aws_lc_rs::signature::KeyPair;
                    let pk = UnparsedPublicKey::new(&ED25519, kp.public_key().as_ref());
                    if pk.verify(&msg, &sig).is_ok() && !signers.contains(n) {
                        signers.push(*n);
                    }
                }
            }
        }
    }
    signers.sort();
    let ver = ctx.unver(signed["version"].as_u64().unwrap_or(0));
    let kind = match file {
        "timestamp.json" => "ts",
        "snapshot.json" => "sn",
        _ => "tg",
    };
    let pinv = match kind {
        "ts" => signed["meta"]["snapshot.json"]["version"].as_u64().map(|x| ctx.unver(x)).unwrap_or(0),
        "sn" => signed["meta"]["targets.json"]["version"].as_u64().map(|x| ctx.unver(x)).unwrap_or(0),
        _ => 0,
    };
    json!({"k": kind, "v": ver, "signers": signers, "pinv": pinv})
}

pub fn project_store(ctx: &Ctx, dir: &std::path::Path) -> Value {
    let known = match std::fs::read(dir.join("latest_known_time.json")) {
        Err(_) => json!(-1),
        Ok(b) => match serde_json::from_slice::<chrono::DateTime<chrono::Utc>>(&b) {
            Ok(t) => {
                let s = t.timestamp() - BASE_TIME;
                if s % ctx.tick == 0 { json!(s / ctx.tick) } else { json!(-2) }
            }
            Err(_) => json!(-2),
        },
    };
    json!({"ts": project(ctx, dir, "timestamp.json"), "sn": project(ctx, dir, "snapshot.json"),
           "tg": project(ctx, dir, "targets.json"), "known": known})
}

fn default_limits(ctx: &Ctx, lim: &Value) -> tough::Limits {
    let delta = lim.get("delta").and_then(|x| x.as_i64()).unwrap_or(0);
    let g = |f: &str, d: u64| {
        ((lim.get(f).and_then(|x| x.as_u64()).unwrap_or(d) * ctx.unit as u64) as i64 + delta).max(0) as u64
    };
    tough::Limits {
        max_root_size: g("root", 2),
        max_timestamp_size: g("ts", 2),
        max_snapshot_size: g("sn", 2),
        max_targets_size: g("tg", 2),
        max_root_updates: lim.get("updates").and_then(|x| x.as_u64()).unwrap_or(4),
    }
}

/// Execute one behaviour; returns the observed trace.
pub async fn run_behaviour(id: &Value, b: &Value) -> Vec<Value> {
    let unit = b.get("unit").and_then(|x| x.as_u64()).unwrap_or(4096) as usize;
    let vmap: Vec<u64> = b.get("vmap").map(nums).unwrap_or_default();
    let chunk = b.get("chunk").and_then(|x| x.as_u64()).unwrap_or(0) as usize;
    let mut ctx = Ctx::new(unit, vmap);
    ctx.tick = b.get("tick").and_then(|x| x.as_i64()).unwrap_or(DAY);
    let tick = ctx.tick;
    let lim = b.get("limits").cloned().unwrap_or(json!({}));
    let limits = default_limits(&ctx, &lim);
    let hist = b["hist"].as_array().expect("hist");
    let dir = scratch("client");
    let mut out = vec![json!({"ev":"reset","id":id,"chain":b.get("chain").cloned().unwrap_or(json!([])),
        "limits": lim.clone(), "tick": tick, "unit": unit, "chunk": chunk})];
    let mut i = 0;
    let mut now_prev: Option<i64> = None;
    let mut repo: Option<tough::Repository> = None;
    let t = MemTransport::new();
    while i < hist.len() {
        let e = &hist[i];
        match e["ev"].as_str().unwrap() {
            "clock" => {
                i += 1;
            }
            "start" => {
                // collect this cycle's events
                let mut j = i + 1;
                let mut files: Vec<(String, Value)> = Vec::new();
                let mut script: Vec<i64> = Vec::new();
                let mut root_now: Option<i64> = None;
                let mut phase_now: HashMap<String, i64> = HashMap::new();
                let mut cur_now = e["now"].as_i64().unwrap_or(0);
                phase_now.insert("start".into(), cur_now);
                while j < hist.len() {
                    let f = &hist[j];
                    let ev = f["ev"].as_str().unwrap();
                    match ev {
                        "clock" => cur_now = f["now"].as_i64().unwrap(),
                        "root" | "ts" | "sn" | "tg" => {
                            let n = f["now"].as_i64().unwrap_or(cur_now);
                            files.push((req_name(&ctx, &f["req"]), f["s"].clone()));
                            if ev == "root" {
                                root_now = Some(n);
                            } else {
                                if let Some(r) = root_now.take() {
                                    script.push(r);
                                }
                                script.push(n);
                            }
                            phase_now.insert(req_name(&ctx, &f["req"]), n);
                        }
                        "rootmax" | "snmissing" | "tgmissing" => {}
                        _ => break,
                    }
                    j += 1;
                }
                if let Some(r) = root_now.take() {
                    script.push(r);
                }
                if script.is_empty() {
                    script.push(cur_now);
                }
                // Continuation files: where the model's cycle ends early (it refuses a document), a
                // faulty client that goes on must find a plausible, correctly signed remainder, so
                // that "it wrongly succeeded" is observable and not masked by a missing file. These
                // files are only ever requested by a client that deviates from the model.
                {
                    let mut rootdoc = e["shipped"].clone();
                    let mut tsd: Option<Value> = None;
                    let mut snd: Option<Value> = None;
                    let mut have_tg = false;
                    for f in &hist[i + 1..j] {
                        match f["ev"].as_str().unwrap_or("") {
                            "root" if f["s"]["k"] == "root" => rootdoc = f["s"].clone(), // the newest root shown
                            "ts" if f["s"]["k"] == "ts" => tsd = Some(f["s"].clone()),
                            "sn" if f["s"]["k"] == "sn" => snd = Some(f["s"].clone()),
                            "tg" => have_tg = true,
                            _ => {}
                        }
                    }
                    // a root the model refuses (not doubly signed, older, ...) ends the model's cycle; a client
                    // that takes it anyway must find a valid successor and top-level metadata under its keys
                    let has_ts = hist[i + 1..j].iter().any(|f| f["ev"] == "ts");
                    if let Some(lr) = hist[i + 1..j].iter().rev().find(|f| f["ev"] == "root") {
                        let o = lr["o"].as_str().unwrap_or("");
                        if !has_ts && lr["s"]["k"] == "root" && o != "adopt" && o != "stop" && o != "MaxSize" {
                            let next = lr["req"][1].as_u64().unwrap_or(0) + 1;
                            let mut succ = lr["s"].clone();
                            succ["v"] = json!(lr["s"]["v"].as_u64().unwrap_or(0) + 1);
                            succ["signers"] = lr["s"]["rk"].clone();
                            succ["len"] = json!(1);
                            let name = req_name(&ctx, &json!(["root", next]));
                            if !files.iter().any(|(n, _)| *n == name) {
                                files.push((name, succ.clone()));
                            }
                            rootdoc = succ;
                            if tsd.is_none() && !files.iter().any(|(n, _)| n.ends_with("timestamp.json")) {
                                let d = json!({"k":"ts","v":1,"exp":rootdoc["exp"],"len":1,"b":1,"signers":rootdoc["ts"],
                                               "pin":{"v":1,"h":{"k":"none"},"len":0}});
                                files.push((req_name(&ctx, &json!(["ts", 0])), d.clone()));
                                tsd = Some(d);
                            }
                        }
                    }
                    // a shipped root the model refuses outright (it does not verify under its own keys): a client
                    // that goes on must find a successor signed by the keys the shipped root declares, and
                    // top-level metadata under it
                    if !hist[i + 1..j].iter().any(|f| ["root", "ts", "sn", "tg"].contains(&f["ev"].as_str().unwrap_or(""))) {
                        let sh = &e["shipped"];
                        let rk: Vec<u64> = sh["rk"].as_array().map(|a| a.iter().filter_map(|x| x.as_u64()).collect()).unwrap_or_default();
                        let valid = sh["signers"].as_array().map(|a| a.iter().filter_map(|x| x.as_u64()).filter(|k| rk.contains(k)).count()).unwrap_or(0) as u64;
                        if sh["k"] == "root" && valid < sh["rthr"].as_u64().unwrap_or(1) {
                            let mut succ = sh.clone();
                            succ["v"] = json!(sh["v"].as_u64().unwrap_or(1) + 1);
                            succ["signers"] = sh["rk"].clone();
                            succ["len"] = json!(1);
                            files.push((req_name(&ctx, &json!(["root", sh["v"].as_u64().unwrap_or(1) + 1])), succ.clone()));
                            rootdoc = succ;
                            let d = json!({"k":"ts","v":1,"exp":rootdoc["exp"],"len":1,"b":1,"signers":rootdoc["ts"],
                                           "pin":{"v":1,"h":{"k":"none"},"len":0}});
                            files.push((req_name(&ctx, &json!(["ts", 0])), d.clone()));
                            tsd = Some(d);
                        }
                    }
                    let cons = rootdoc["cons"].as_bool().unwrap_or(false);
                    if let Some(tsv) = &tsd {
                        let pv = tsv["pin"]["v"].as_u64().unwrap_or(0);
                        if snd.is_none() && pv > 0 && !files.iter().any(|(n, _)| n.ends_with("snapshot.json")) {
                            let d = json!({"k":"sn","v":pv,"exp":tsv["exp"],"len":1,"b":1,"signers":rootdoc["sn"],
                                           "pin":{"v":pv,"h":{"k":"none"},"len":0}});
                            files.push((req_name(&ctx, &json!(["sn", if cons { pv } else { 0 }])), d.clone()));
                            snd = Some(d);
                        }
                    }
                    if let Some(snv) = &snd {
                        let pv = snv["pin"]["v"].as_u64().unwrap_or(0);
                        if !have_tg && pv > 0 && !files.iter().any(|(n, _)| n.ends_with("targets.json")) {
                            let d = json!({"k":"tg","v":pv,"exp":snv["exp"],"len":1,"b":1,"signers":rootdoc["tg"]});
                            files.push((req_name(&ctx, &json!(["tg", if cons { pv } else { 0 }])), d));
                        }
                    }
                }
                t.clear();
                let mut table: HashMap<String, Value> = HashMap::new();
                for (name, s) in &files {
                    t.put(&format!("metadata/{name}"), served_of(&ctx, s, chunk));
                    table.insert(name.clone(), s.clone());
                }
                let shipped = concretise(&ctx, &e["shipped"]).expect("shipped root");
                let enforce = e["enforce"].as_bool().unwrap_or(true);
                tough::verif_hooks::set_fixed_base(Some(BASE_TIME));
                tough::verif_hooks::set_clock_script(script.iter().map(|d| d * tick).collect());
                let start_now = e["now"].as_i64().unwrap_or(0);
                if now_prev != Some(start_now) {
                    out.push(json!({"ev":"clock","now":start_now}));
                    now_prev = Some(start_now);
                }
                out.push(json!({"ev":"start","shipped":e["shipped"],"enforce":enforce,"now":start_now}));
                let r = guard(load(&shipped, &t, Some(dir.path()), Some(limits), enforce)).await;
                let samples: Vec<i64> = tough::verif_hooks::drain_samples()
                    .iter()
                    .map(|s| (s - BASE_TIME) / tick)
                    .collect();
                let log = t.take_log();
                for rq in &log {
                    let name = rq.name.strip_prefix("metadata/").unwrap_or(&rq.name).to_string();
                    let req = parse_name(&ctx, &name);
                    let s = table.get(&name).cloned().unwrap_or(json!({"k":"absent"}));
                    let n = phase_now.get(&name).cloned().unwrap_or(now_prev.unwrap_or(0));
                    if now_prev != Some(n) {
                        out.push(json!({"ev":"clock","now":n}));
                        now_prev = Some(n);
                    }
                    let role = req[0].as_str().unwrap().to_string();
                    out.push(json!({"ev":role,"req":req,"s":s,"now":n,
                        "pulled":rq.pulled_bytes,"chunks":rq.pulled_chunks}));
                }
                let (res, vers) = match r {
                    Err(p) => (format!("panic:{p}"), json!({"root":0,"ts":0,"sn":0,"tg":0,"ltg":0})),
                    Ok(Err(e)) => (classify(&e), json!({"root":0,"ts":0,"sn":0,"tg":0,"ltg":0})),
                    Ok(Ok(rp)) => {
                        let ltg = rp.snapshot().signed.meta.get("targets.json").map(|m| m.version.get()).unwrap_or(0);
                        let v = json!({
                            "root": rp.root().signed.version.get(),
                            "ts": ctx.unver(rp.timestamp().signed.version.get()),
                            "sn": ctx.unver(rp.snapshot().signed.version.get()),
                            "tg": ctx.unver(rp.targets().signed.version.get()),
                            "ltg": if ltg == 0 { 0 } else { ctx.unver(ltg) }});
                        repo = Some(rp);
                        ("ok".to_string(), v)
                    }
                };
                if res != "ok" {
                    repo = None;
                }
                out.push(json!({"ev":"end","res":res,"vers":vers,"samples":samples,
                    "store":project_store(&ctx, dir.path()),"cap":t.cap_hit()}));
                i = j;
            }
            "read" => {
                let n = e["now"].as_i64().unwrap_or(0);
                if now_prev != Some(n) {
                    out.push(json!({"ev":"clock","now":n}));
                    now_prev = Some(n);
                }
                tough::verif_hooks::set_fixed_base(Some(BASE_TIME));
                tough::verif_hooks::set_clock_script(vec![n * tick]);
                let res = match &repo {
                    None => "no-repo".to_string(),
                    Some(rp) => {
                        let name = tough::TargetName::new("no-such-target").unwrap();
                        match guard(rp.read_target(&name)).await {
                            Err(p) => format!("panic:{p}"),
                            Ok(Ok(_)) => "read-ok".to_string(),
                            Ok(Err(e)) => classify(&e),
                        }
                    }
                };
                let samples: Vec<i64> = tough::verif_hooks::drain_samples().iter().map(|s| (s - BASE_TIME) / tick).collect();
                out.push(json!({"ev":"read","res":res,"now":n,"samples":samples,
                    "store":project_store(&ctx, dir.path())}));
                i += 1;
            }
            _ => {
                i += 1;
            }
        }
    }
    out
}

pub fn run(args: &[String]) {
    use std::io::{BufRead, Write};
    let bpath = arg(args, "--behaviours").expect("--behaviours");
    let out = arg(args, "--out").expect("--out");
    let override_unit = arg(args, "--unit").map(|s| s.parse::<u64>().unwrap());
    let override_vmap: Option<Vec<u64>> =
        arg(args, "--vmap").map(|s| s.split(',').map(|x| x.parse().unwrap()).collect());
    // the clock hook is process-global: behaviours run one at a time per process; parallelism
    // comes from running several processes (see --shard).  The behaviours file is streamed: a shard
    // parses only its own lines and writes the events of a behaviour as soon as it has run.
    let shard = arg(args, "--shard").map(|s| {
        let (a, b) = s.split_once('/').unwrap();
        (a.parse::<usize>().unwrap(), b.parse::<usize>().unwrap())
    });
    let rt = tokio::runtime::Builder::new_current_thread().enable_all().build().unwrap();
    let mut w = std::io::BufWriter::new(std::fs::File::create(&out).expect("create output"));
    let f = std::io::BufReader::new(std::fs::File::open(&bpath).expect("open behaviours"));
    let mut i = 0usize;
    for line in f.lines() {
        let line = line.expect("read behaviours");
        if line.trim().is_empty() {
            continue;
        }
        let idx = i;
        i += 1;
        if let Some((k, n)) = shard {
            if idx % n != k {
                continue;
            }
        }
        let mut b: Value = serde_json::from_str(&line).expect("behaviour json");
        if let Some(un) = override_unit {
            b["unit"] = json!(un);
        }
        if let Some(vm) = &override_vmap {
            b["vmap"] = json!(vm);
        }
        let id = b.get("id").cloned().unwrap_or(json!(idx));
        for r in rt.block_on(run_behaviour(&id, &b)) {
            serde_json::to_writer(&mut w, &r).unwrap();
            w.write_all(b"\n").unwrap();
        }
    }
    w.flush().unwrap();
}
