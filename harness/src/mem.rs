//! Scripted in-memory transport: serves per-file scripts, logs every request and every chunk pulled.

use bytes::Bytes;
use futures_core::Stream;
use std::collections::HashMap;
use std::pin::Pin;
use std::sync::{Arc, Mutex};
use std::task::{Context, Poll};
use tough::{async_trait, Transport, TransportError, TransportErrorKind};
use url::Url;

#[derive(Clone, Debug)]
pub enum Chunk {
    Data(Vec<u8>),
    Err,
}

#[derive(Clone, Debug)]
pub enum Served {
    /// the whole body, delivered in chunks of `chunk` bytes (0 = one chunk)
    Body { data: Vec<u8>, chunk: usize },
    /// explicit chunk script, then end of stream
    Script(Vec<Chunk>),
    /// fetch() itself fails with FileNotFound
    NotFound,
    /// the stream's first item is a FileNotFound error (as HttpTransport reports a 404)
    NotFoundInStream,
    /// fetch() itself fails with Other
    Error,
    /// never-ending stream of `chunk`-sized zero chunks
    Endless { chunk: usize },
}

#[derive(Clone, Debug, Default)]
pub struct ReqLog {
    pub name: String,
    pub url: String,
    pub served: String,
    pub pulled_bytes: u64,
    pub pulled_chunks: u64,
    pub ended: bool,
}

type Observer = Arc<dyn Fn(&str, u64) + Send + Sync>;

#[derive(Default)]
pub struct MemState {
    pub files: HashMap<String, Served>,
    pub log: Vec<ReqLog>,
    pub request_cap: usize,
    pub cap_hit: bool,
}

#[derive(Clone)]
pub struct MemTransport {
    pub state: Arc<Mutex<MemState>>,
    /// called with (file name, bytes delivered so far) before each chunk is handed out
    pub observer: Option<Observer>,
    pub prefix: String,
}

impl std::fmt::Debug for MemTransport {
    fn fmt(&self, f: &mut std::fmt::Formatter<'_>) -> std::fmt::Result {
        f.write_str("MemTransport")
    }
}

impl MemTransport {
    pub fn new() -> Self {
        MemTransport {
            state: Arc::new(Mutex::new(MemState {
                request_cap: 10_000,
                ..Default::default()
            })),
            observer: None,
            prefix: "mem://r/".to_string(),
        }
    }
    pub fn metadata_url(&self) -> Url {
        Url::parse(&format!("{}metadata/", self.prefix)).unwrap()
    }
    pub fn targets_url(&self) -> Url {
        Url::parse(&format!("{}targets/", self.prefix)).unwrap()
    }
    /// key = path below the prefix, e.g. "metadata/2.root.json"
    pub fn put(&self, key: &str, s: Served) {
        self.state.lock().unwrap().files.insert(key.to_string(), s);
    }
    pub fn put_body(&self, key: &str, data: Vec<u8>) {
        self.put(key, Served::Body { data, chunk: 0 });
    }
    pub fn remove(&self, key: &str) {
        self.state.lock().unwrap().files.remove(key);
    }
    pub fn clear(&self) {
        let mut s = self.state.lock().unwrap();
        s.files.clear();
        s.log.clear();
        s.cap_hit = false;
    }
    pub fn take_log(&self) -> Vec<ReqLog> {
        std::mem::take(&mut self.state.lock().unwrap().log)
    }
    pub fn cap_hit(&self) -> bool {
        self.state.lock().unwrap().cap_hit
    }
}

struct MemStream {
    state: Arc<Mutex<MemState>>,
    idx: usize,
    name: String,
    chunks: std::collections::VecDeque<Chunk>,
    endless: Option<usize>,
    url: String,
    observer: Option<Observer>,
    delivered: u64,
}

impl Stream for MemStream {
    type Item = Result<Bytes, TransportError>;
    fn poll_next(mut self: Pin<&mut Self>, _cx: &mut Context<'_>) -> Poll<Option<Self::Item>> {
        if let Some(o) = &self.observer {
            o(&self.name, self.delivered);
        }
        let item = if let Some(n) = self.endless {
            Some(Chunk::Data(vec![0u8; n.max(1)]))
        } else {
            self.chunks.pop_front()
        };
        let idx = self.idx;
        let mut st = self.state.lock().unwrap();
        match item {
            None => {
                st.log[idx].ended = true;
                Poll::Ready(None)
            }
            Some(Chunk::Data(d)) => {
                st.log[idx].pulled_bytes += d.len() as u64;
                st.log[idx].pulled_chunks += 1;
                drop(st);
                self.delivered += d.len() as u64;
                Poll::Ready(Some(Ok(Bytes::from(d))))
            }
            Some(Chunk::Err) => {
                st.log[idx].pulled_chunks += 1;
                let url = self.url.clone();
                Poll::Ready(Some(Err(TransportError::new_with_cause(
                    TransportErrorKind::Other,
                    url,
                    "scripted transport error",
                ))))
            }
        }
    }
}

#[async_trait]
impl Transport for MemTransport {
    async fn fetch(
        &self,
        url: Url,
    ) -> Result<Pin<Box<dyn Stream<Item = Result<Bytes, TransportError>> + Send>>, TransportError>
    {
        let us = url.as_str().to_string();
        let key = us.strip_prefix(&self.prefix).unwrap_or(&us).to_string();
        let mut st = self.state.lock().unwrap();
        if st.log.len() >= st.request_cap {
            st.cap_hit = true;
            return Err(TransportError::new_with_cause(
                TransportErrorKind::Other,
                us,
                "harness request cap reached",
            ));
        }
        // like a web server: the resource is looked up under the raw path first, then under the
        // percent-decoded one
        let served = st
            .files
            .get(&us)
            .cloned()
            .or_else(|| st.files.get(&key).cloned())
            .or_else(|| st.files.get(&pct_decode(&key)).cloned())
            .unwrap_or(Served::NotFound);
        let idx = st.log.len();
        st.log.push(ReqLog {
            name: key.clone(),
            url: us.clone(),
            served: match &served {
                Served::Body { .. } => "body",
                Served::Script(_) => "script",
                Served::NotFound => "notfound",
                Served::NotFoundInStream => "notfound-stream",
                Served::Error => "error",
                Served::Endless { .. } => "endless",
            }
            .to_string(),
            ..Default::default()
        });
        drop(st);
        let mut chunks = std::collections::VecDeque::new();
        let mut endless = None;
        match served {
            Served::NotFound => {
                return Err(TransportError::new(TransportErrorKind::FileNotFound, us))
            }
            Served::Error => {
                return Err(TransportError::new_with_cause(
                    TransportErrorKind::Other,
                    us,
                    "scripted fetch error",
                ))
            }
            Served::NotFoundInStream => {
                let e = TransportError::new(TransportErrorKind::FileNotFound, us);
                return Ok(Box::pin(futures::stream::once(async move { Err(e) })));
            }
            Served::Body { data, chunk } => {
                if chunk == 0 || data.is_empty() {
                    if !data.is_empty() {
                        chunks.push_back(Chunk::Data(data));
                    }
                } else {
                    for c in data.chunks(chunk) {
                        chunks.push_back(Chunk::Data(c.to_vec()));
                    }
                }
            }
            Served::Script(s) => chunks.extend(s),
            Served::Endless { chunk } => endless = Some(chunk),
        }
        Ok(Box::pin(MemStream {
            state: self.state.clone(),
            idx,
            name: key,
            chunks,
            endless,
            url: us,
            observer: self.observer.clone(),
            delivered: 0,
        }))
    }
}

pub fn pct_decode(s: &str) -> String {
    let b = s.as_bytes();
    let mut out = Vec::with_capacity(b.len());
    let mut i = 0;
    while i < b.len() {
        if b[i] == b'%' && i + 2 < b.len() + 0 && i + 2 <= b.len() - 1 + 0 {
            if let Ok(v) = u8::from_str_radix(&s[i + 1..i + 3], 16) {
                out.push(v);
                i += 3;
                continue;
            }
        }
        out.push(b[i]);
        i += 1;
    }
    String::from_utf8_lossy(&out).to_string()
}
