//! A small, valid repository served from memory: root/timestamp/snapshot/targets (+ one optional
//! delegated role "d" holding the targets), built with the independent builders of base.rs.

use crate::base::*;
use crate::mem::MemTransport;
use serde_json::{Map, Value};

pub const EXP: i64 = BASE_TIME + 3650 * DAY;

pub struct Mini {
    pub t: MemTransport,
    pub shipped: Vec<u8>,
}

/// targets: (raw name, signed content). All metadata version 1.
pub fn mini_repo(consistent: bool, delegated: bool, targets: &[(String, Vec<u8>)]) -> Mini {
    mini_repo_with(consistent, delegated, targets, &["*"])
}

pub fn mini_repo_with(consistent: bool, delegated: bool, targets: &[(String, Vec<u8>)], paths: &[&str]) -> Mini {
    let (r, ts, sn, tg, d) = (ed_key(100), ed_key(101), ed_key(102), ed_key(103), ed_key(104));
    let root = root_signed(
        1,
        EXP,
        consistent,
        &[&r, &ts, &sn, &tg],
        &[
            ("root", vec![r.keyid.clone()], 1),
            ("timestamp", vec![ts.keyid.clone()], 1),
            ("snapshot", vec![sn.keyid.clone()], 1),
            ("targets", vec![tg.keyid.clone()], 1),
        ],
    );
    let shipped = to_bytes(&envelope(&root, &[&r]));
    let mut entries = Map::new();
    for (n, c) in targets {
        entries.insert(n.clone(), target_entry(c));
    }
    let t = MemTransport::new();
    let pre = |v: u64, n: &str| if consistent { format!("metadata/{v}.{n}") } else { format!("metadata/{n}") };
    let mut meta = Map::new();
    let tg_env = if delegated {
        let dj = delegations_json(&[&d], vec![delegated_role_json("d", &[d.keyid.clone()], 1, paths, false)]);
        let dd = targets_signed(1, EXP, entries, None);
        let dd_env = to_bytes(&envelope(&dd, &[&d]));
        meta.insert("d.json".into(), meta_entry(1, None, None));
        t.put_body(&pre(1, "d.json"), dd_env);
        envelope(&targets_signed(1, EXP, Map::new(), Some(dj)), &[&tg])
    } else {
        envelope(&targets_signed(1, EXP, entries, None), &[&tg])
    };
    let tg_bytes = to_bytes(&tg_env);
    meta.insert(
        "targets.json".into(),
        meta_entry(1, Some(tg_bytes.len() as u64), Some(&sha256_hex(&tg_bytes))),
    );
    t.put_body(&pre(1, "targets.json"), tg_bytes);
    let sn_bytes = to_bytes(&envelope(&snapshot_signed(1, EXP, meta), &[&sn]));
    let ts_env = envelope(
        &timestamp_signed(1, EXP, meta_entry(1, Some(sn_bytes.len() as u64), Some(&sha256_hex(&sn_bytes)))),
        &[&ts],
    );
    t.put_body(&pre(1, "snapshot.json"), sn_bytes);
    t.put_body("metadata/timestamp.json", to_bytes(&ts_env));
    t.put_body("metadata/1.root.json", shipped.clone());
    let _ = Value::Null;
    Mini { t, shipped }
}

/// key under which the transport serves a target
pub fn target_key(consistent: bool, resolved: &str, content_signed: &[u8]) -> String {
    if consistent {
        format!("targets/{}.{}", sha256_hex(content_signed), resolved)
    } else {
        format!("targets/{resolved}")
    }
}
