//! C13: key tables and key identifiers -- replay of the cases of KeyTable.tla with real keys of
//! every supported type and encoding.

use crate::base::*;
use crate::util::*;
use aws_lc_rs::signature::KeyPair;
use serde_json::{json, Value};
use tough::schema::{Root, Signed, Targets};
use tough::sign::Sign;

/// (label, key json) for index i: rotates through the supported types and encodings
fn flavored_key(i: usize, rot: usize) -> (String, Value) {
    match (i + rot) % 5 {
        0 => ("ed25519-hex".into(), ed_key(200 + i as u64).public),
        1 => ("rsa-pem".into(), make_key("rsa", i as u64).public),
        2 => ("ecdsa-pem".into(), make_key("ecdsa", i as u64).public),
        3 => {
            // hex-encoded uncompressed point
            let k = make_key("ecdsa", i as u64 + 3);
            let point = match &k.kp { Kp::Ec(kp) => hex::encode(kp.public_key().as_ref()), _ => unreachable!() };
            ("ecdsa-hex".into(), json!({"keytype":"ecdsa","scheme":"ecdsa-sha2-nistp256","keyval":{"public":point}}))
        }
        _ => {
            let mut v = make_key("ecdsa", i as u64 + 5).public;
            v["keytype"] = json!("ecdsa-sha2-nistp256");
            ("ecdsa-old-type".into(), v)
        }
    }
}

fn key_id_of(v: &Value) -> String {
    sha256_hex(&canon(v))
}

fn flip_hex(id: &str) -> String {
    let mut b = hex::decode(id).unwrap();
    b[0] ^= 0x01;
    hex::encode(b)
}

fn doc_text(site: &str, entries: &[(String, Value)]) -> String {
    let keys_text = format!(
        "{{{}}}",
        entries.iter().map(|(id, k)| format!("{}:{}", serde_json::to_string(id).unwrap(), serde_json::to_string(k).unwrap())).collect::<Vec<_>>().join(",")
    );
    // key ids used by roles: a syntactically valid id, whatever the table says
    let some_id = "00".repeat(32);
    if site == "root" {
        format!(
            r#"{{"signed":{{"_type":"root","spec_version":"1.0.0","consistent_snapshot":false,"version":1,"expires":"2030-01-01T00:00:00Z","keys":{keys_text},"roles":{{"root":{{"keyids":["{some_id}"],"threshold":1}},"timestamp":{{"keyids":["{some_id}"],"threshold":1}},"snapshot":{{"keyids":["{some_id}"],"threshold":1}},"targets":{{"keyids":["{some_id}"],"threshold":1}}}}}},"signatures":[]}}"#
        )
    } else {
        format!(
            r#"{{"signed":{{"_type":"targets","spec_version":"1.0.0","version":1,"expires":"2030-01-01T00:00:00Z","targets":{{}},"delegations":{{"keys":{keys_text},"roles":[]}}}},"signatures":[]}}"#
        )
    }
}

fn parse(site: &str, text: &str) -> Result<Vec<(String, String)>, String> {
    // returns (listed id hex, recomputed id hex) per key
    if site == "root" {
        let r: Signed<Root> = serde_json::from_str(text).map_err(|e| e.to_string())?;
        Ok(r.signed.keys.iter().map(|(id, k)| (hex::encode(id), hex::encode(k.key_id().unwrap()))).collect())
    } else {
        let r: Signed<Targets> = serde_json::from_str(text).map_err(|e| e.to_string())?;
        Ok(r.signed.delegations.unwrap().keys.iter().map(|(id, k)| (hex::encode(id), hex::encode(k.key_id().unwrap()))).collect())
    }
}

fn reserialize(site: &str, text: &str) -> Result<String, String> {
    if site == "root" {
        let r: Signed<Root> = serde_json::from_str(text).map_err(|e| e.to_string())?;
        serde_json::to_string(&r).map_err(|e| e.to_string())
    } else {
        let r: Signed<Targets> = serde_json::from_str(text).map_err(|e| e.to_string())?;
        serde_json::to_string(&r).map_err(|e| e.to_string())
    }
}

fn one(c: &Value, rot: usize) -> Value {
    let n = c["n"].as_u64().unwrap() as usize;
    let pos = c["pos"].as_u64().unwrap() as usize - 1;
    let site = c["site"].as_str().unwrap();
    let mutn = c["mut"].as_str().unwrap();
    let mut flavors = Vec::new();
    let mut entries: Vec<(String, Value)> = (0..n)
        .map(|i| {
            let (f, k) = flavored_key(i, rot);
            flavors.push(f);
            (key_id_of(&k), k)
        })
        .collect();
    let other = if pos + 1 == n { 0 } else { pos + 1 };
    match mutn {
        "none" => {}
        "flip" => entries[pos].0 = flip_hex(&entries[pos].0),
        "swap" => {
            let a = entries[pos].0.clone();
            entries[pos].0 = entries[other].0.clone();
            entries[other].0 = a;
        }
        "truncate" => {
            let l = entries[pos].0.len();
            entries[pos].0.truncate(l - 2);
        }
        "uppercase" => entries[pos].0 = entries[pos].0.to_uppercase(),
        "duplicate" => entries.push(entries[pos].clone()),
        "duplicate-respelled" => {
            let mut e = entries[pos].clone();
            e.0 = e.0.to_uppercase();
            entries.push(e);
        }
        "extra-member-recomputed" | "extra-member-stale" => {
            entries[pos].1["x-unknown"] = json!({"a": 1, "b": [true, null]});
            entries[pos].1["keyval"]["x-also-unknown"] = json!("kept");
            if mutn == "extra-member-recomputed" {
                entries[pos].0 = key_id_of(&entries[pos].1);
            }
        }
        x => panic!("mutation {x}"),
    }
    let text = doc_text(site, &entries);
    let parsed = parse(site, &text);
    let mut stable = true;
    let mut detail = String::new();
    if let Ok(ids) = &parsed {
        // listed id bytes == recomputed digest == harness digest, for every key
        for (listed, recomputed) in ids {
            if listed != recomputed {
                stable = false;
                detail = format!("listed {listed} recomputed {recomputed}");
            }
        }
        let expect: std::collections::BTreeSet<String> = entries.iter().map(|(_, k)| key_id_of(k)).collect();
        let got: std::collections::BTreeSet<String> = ids.iter().map(|(_, r)| r.clone()).collect();
        if expect != got {
            stable = false;
            detail = format!("harness digests {expect:?} library {got:?}");
        }
        // parse -> serialise -> parse keeps the identifiers
        match reserialize(site, &text).and_then(|t2| parse(site, &t2).map(|i2| (t2, i2))) {
            Ok((t2, ids2)) => {
                let mut a = ids.clone();
                let mut b = ids2.clone();
                a.sort();
                b.sort();
                if a != b {
                    stable = false;
                    detail = "identifiers changed after re-serialisation".into();
                }
                if let Ok(t3) = reserialize(site, &t2) {
                    if t3 != t2 && parse(site, &t3).map(|mut i3| { i3.sort(); i3 }) != Ok(b) {
                        stable = false;
                        detail = "identifiers changed after second re-serialisation".into();
                    }
                }
            }
            Err(e) => {
                stable = false;
                detail = format!("re-serialised document does not parse: {e}");
            }
        }
    }
    json!({"in": c, "rot": rot, "flavors": flavors, "parsed": parsed.is_ok(), "err": parsed.err().unwrap_or_default().chars().take(200).collect::<String>(),
           "stable": stable, "detail": detail})
}

/// identifiers of keys the library imports: stable across serialise / parse
fn imported() -> Vec<Value> {
    let mut out = Vec::new();
    let mut files: Vec<(String, Vec<u8>)> = Vec::new();
    for i in 0..3 {
        files.push((format!("rsa{i}.pem"), std::fs::read(keys_dir().join(format!("rsa{i}.pem"))).unwrap()));
        files.push((format!("ec{i}.pk8"), std::fs::read(keys_dir().join(format!("ec{i}.pk8"))).unwrap()));
        files.push((format!("ed{i}"), ed_key(300 + i).private_file));
    }
    for extra in ["/repo/tough/tests/data/snakeoil.pem", "/repo/tough/tests/data/snakeoil_2.pem"] {
        if let Ok(b) = std::fs::read(extra) {
            files.push((extra.to_string(), b));
        }
    }
    for (name, bytes) in files {
        let r = (|| -> Result<(String, String, String), String> {
            let kp = tough::sign::parse_keypair(&bytes).map_err(|e| e.to_string())?;
            let key = kp.tuf_key();
            let id1 = hex::encode(key.key_id().map_err(|e| e.to_string())?);
            let kj = serde_json::to_value(&key).map_err(|e| e.to_string())?;
            let text = doc_text("root", &[(id1.clone(), kj.clone())]);
            let ids = parse("root", &text)?;
            let t2 = reserialize("root", &text)?;
            let ids2 = parse("root", &t2)?;
            Ok((id1, ids[0].1.clone(), ids2[0].1.clone()))
        })();
        out.push(match r {
            Ok((a, b, c)) => json!({"imported": name, "ok": a == b && b == c, "ids": [a, b, c]}),
            Err(e) => json!({"imported": name, "ok": false, "err": e}),
        });
    }
    out
}

pub fn run(args: &[String]) {
    let cases = read_ndjson(&arg(args, "--cases").expect("--cases"));
    let out = arg(args, "--out").expect("--out");
    let rots: usize = arg_or(args, "--rotations", "5").parse().unwrap();
    let mut rows = Vec::new();
    for c in &cases {
        for rot in 0..rots {
            rows.push(one(c, rot));
        }
    }
    rows.extend(imported());
    write_ndjson(&out, &rows);
}
