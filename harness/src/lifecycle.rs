//! Lifecycle.tla behaviours replayed through the `tuftool` binary (create, update,
//! transfer-metadata, clone, download) and an in-process client with a persistent datastore;
//! after every command the directories are inspected independently and projected onto the
//! model's state.

use crate::base::*;
use crate::util::*;
use serde_json::{json, Map, Value};
use std::collections::BTreeMap;
use std::path::{Path, PathBuf};
use std::process::Command;
use tough::{RepositoryLoader, TargetName};
use url::Url;

const FAR: &str = "2090-01-01T00:00:00Z";
const ROOT_EXP: i64 = BASE_TIME + 20000 * DAY;

struct World {
    dir: tempfile::TempDir,
    tuftool: String,
    names: Vec<String>,
    max_content: u64,
    keys: BTreeMap<&'static str, (K, PathBuf)>,
    root1: PathBuf,
    root2: BTreeMap<String, PathBuf>,
    cur_root: PathBuf,
    rot: String,
    indirs: u64,
}

fn content(name: &str, c: u64) -> Vec<u8> {
    let mut v = format!("content {c} of {name}\n").into_bytes();
    // a few kilobytes, different lengths for different contents
    for i in 0..(200 * c + name.len() as u64) {
        v.extend_from_slice(format!("{i:08x}").as_bytes());
    }
    v
}

fn furl(p: &Path) -> String {
    // directory URL with a trailing slash
    let mut u = Url::from_directory_path(p).expect("dir url").to_string();
    if !u.ends_with('/') {
        u.push('/');
    }
    u
}

impl World {
    fn new(tuftool: &str, names: Vec<String>, max_content: u64) -> World {
        let dir = scratch("life");
        let kd = dir.path().join("keys");
        std::fs::create_dir_all(&kd).unwrap();
        let mut keys = BTreeMap::new();
        for (name, n) in [("root", 900u64), ("tsA", 901), ("snA", 902), ("tg", 903), ("tsB", 904), ("snB", 905)] {
            let k = ed_key(n);
            let f = kd.join(name);
            std::fs::write(&f, &k.private_file).unwrap();
            keys.insert(name, (k, f));
        }
        let mk_root = |version: u64, ts: &str, sn: &str| -> Vec<u8> {
            let table: Vec<&K> = ["root", ts, sn, "tg"].iter().map(|x| &keys[*x].0).collect();
            let id = |x: &str| vec![keys[x].0.keyid.clone()];
            let signed = root_signed(version, ROOT_EXP, true, &table,
                &[("root", id("root"), 1), ("timestamp", id(ts), 1), ("snapshot", id(sn), 1), ("targets", id("tg"), 1)]);
            to_bytes(&envelope(&signed, &[&keys["root"].0]))
        };
        let root1 = dir.path().join("root1.json");
        std::fs::write(&root1, mk_root(1, "tsA", "snA")).unwrap();
        let mut root2 = BTreeMap::new();
        for (kind, ts, sn) in [("same", "tsA", "snA"), ("online", "tsB", "snB")] {
            let p = dir.path().join(format!("root2-{kind}.json"));
            std::fs::write(&p, mk_root(2, ts, sn)).unwrap();
            root2.insert(kind.to_string(), p);
        }
        World { cur_root: root1.clone(), dir, tuftool: tuftool.to_string(), names, max_content, keys, root1, root2, rot: "none".into(), indirs: 0 }
    }
    fn p(&self, s: &str) -> PathBuf {
        self.dir.path().join(s)
    }
    fn key_args(&self) -> Vec<String> {
        let (ts, sn) = if self.rot == "online" { ("tsB", "snB") } else { ("tsA", "snA") };
        let mut v = Vec::new();
        for k in [ts, sn, "tg"] {
            v.push("-k".to_string());
            v.push(self.keys[k].1.to_str().unwrap().to_string());
        }
        v
    }
    fn tt(&self, args: &[String]) -> (bool, String) {
        let o = Command::new(&self.tuftool).args(args).current_dir(self.dir.path()).output().expect("run tuftool");
        let txt = format!("{}{}", String::from_utf8_lossy(&o.stdout), String::from_utf8_lossy(&o.stderr));
        (o.status.success(), txt.chars().take(400).collect())
    }
    fn indir(&mut self, names: &[String], c: u64) -> PathBuf {
        self.indirs += 1;
        let d = self.p(&format!("in{}", self.indirs));
        std::fs::create_dir_all(&d).unwrap();
        for n in names {
            std::fs::write(d.join(n), content(n, c)).unwrap();
        }
        d
    }
    fn content_id(&self, name: &str, sha: &str) -> u64 {
        for c in 1..=self.max_content {
            if sha256_hex(&content(name, c)) == sha {
                return c;
            }
        }
        99
    }
    fn bytes_id(&self, name: &str, b: &[u8]) -> u64 {
        self.content_id(name, &sha256_hex(b))
    }
    fn version_args(&self, v: &Value, exp: &Value) -> Vec<String> {
        // a different expiration for every role; an expired role gets a date in 2001
        let date = |r: &str, day: u32| format!("{}-01-0{day}T00:00:00Z", if exp[r] == true { 2001 } else { 2090 });
        vec!["--targets-version".into(), v["tg"].to_string(), "--targets-expires".into(), date("tg", 3),
             "--snapshot-version".into(), v["sn"].to_string(), "--snapshot-expires".into(), date("sn", 2),
             "--timestamp-version".into(), v["ts"].to_string(), "--timestamp-expires".into(), date("ts", 1)]
    }
    fn signer(&self, role: &str) -> &K {
        let online = self.rot == "online";
        match role {
            "timestamp" => &self.keys[if online { "tsB" } else { "tsA" }].0,
            "snapshot" => &self.keys[if online { "snB" } else { "snA" }].0,
            _ => &self.keys["tg"].0,
        }
    }
}

fn read_json(p: &Path) -> Option<Value> {
    serde_json::from_slice(&std::fs::read(p).ok()?).ok()
}

pub fn signed_by(doc: &Value, k: &K) -> bool {
    use aws_lc_rs::signature::{KeyPair, UnparsedPublicKey, ED25519};
    let msg = canon(&doc["signed"]);
    let pk = match &k.kp {
        Kp::Ed(kp) => kp.public_key().as_ref().to_vec(),
        _ => return false,
    };
    doc["signatures"].as_array().map(|a| a.iter().any(|s| {
        s["keyid"].as_str().map(|x| x.to_lowercase()) == Some(k.keyid.clone())
            && hex::decode(s["sig"].as_str().unwrap_or("")).map(|sig| UnparsedPublicKey::new(&ED25519, &pk).verify(&msg, &sig).is_ok()).unwrap_or(false)
    })).unwrap_or(false)
}

/// versions, listed targets, extras and internal consistency of a metadata directory
fn inspect_meta(w: &World, md: &Path, check_sigs: bool) -> Value {
    let mut problems: Vec<String> = Vec::new();
    let mut roots: Vec<u64> = Vec::new();
    if let Ok(rd) = std::fs::read_dir(md) {
        for e in rd.flatten() {
            let n = e.file_name().to_string_lossy().to_string();
            if let Some(v) = n.strip_suffix(".root.json").and_then(|x| x.parse::<u64>().ok()) {
                roots.push(v);
            }
        }
    }
    roots.sort();
    let ts = match read_json(&md.join("timestamp.json")) {
        Some(v) => v,
        None => return json!({"on": false, "roots": roots}),
    };
    let tsv = ts["signed"]["version"].as_u64().unwrap_or(0);
    let snm = &ts["signed"]["meta"]["snapshot.json"];
    let snv_listed = snm["version"].as_u64().unwrap_or(0);
    let check_pin = |pin: &Value, file: &Path, what: &str, problems: &mut Vec<String>| {
        match std::fs::read(file) {
            Ok(b) => {
                if let Some(l) = pin["length"].as_u64() {
                    if l != b.len() as u64 {
                        problems.push(format!("{what}: listed length {l}, file has {}", b.len()));
                    }
                }
                if let Some(h) = pin["hashes"]["sha256"].as_str() {
                    if h != sha256_hex(&b) {
                        problems.push(format!("{what}: listed digest differs from the file's"));
                    }
                }
            }
            Err(_) => problems.push(format!("{what}: file {file:?} missing")),
        }
    };
    let snf = md.join(format!("{snv_listed}.snapshot.json"));
    check_pin(snm, &snf, "snapshot.json in timestamp", &mut problems);
    let sn = read_json(&snf).unwrap_or(Value::Null);
    let snv = sn["signed"]["version"].as_u64().unwrap_or(0);
    let tgm = &sn["signed"]["meta"]["targets.json"];
    let tgv_listed = tgm["version"].as_u64().unwrap_or(0);
    let tgf = md.join(format!("{tgv_listed}.targets.json"));
    check_pin(tgm, &tgf, "targets.json in snapshot", &mut problems);
    let tg = read_json(&tgf).unwrap_or(Value::Null);
    let tgv = tg["signed"]["version"].as_u64().unwrap_or(0);
    if snv != snv_listed {
        problems.push(format!("timestamp lists snapshot version {snv_listed}, the file has {snv}"));
    }
    if tgv != tgv_listed {
        problems.push(format!("snapshot lists targets version {tgv_listed}, the file has {tgv}"));
    }
    if check_sigs {
        for (doc, role) in [(&ts, "timestamp"), (&sn, "snapshot"), (&tg, "targets")] {
            if !signed_by(doc, w.signer(role)) {
                problems.push(format!("{role} is not signed by the key the root in force lists"));
            }
        }
    }
    let mut tset = Map::new();
    for n in &w.names {
        let e = &tg["signed"]["targets"][n];
        let id = if e.is_object() {
            let id = w.content_id(n, e["hashes"]["sha256"].as_str().unwrap_or(""));
            if id != 99 && e["length"].as_u64() != Some(content(n, id).len() as u64) {
                problems.push(format!("target {n}: listed length is wrong"));
            }
            id
        } else {
            0
        };
        tset.insert(n.clone(), json!(id));
    }
    let others: Vec<String> = tg["signed"]["targets"].as_object().map(|m| m.keys().filter(|k| !w.names.contains(k)).cloned().collect()).unwrap_or_default();
    if !others.is_empty() {
        problems.push(format!("targets lists names nobody added: {others:?}"));
    }
    let extra = json!({"ts": ts["signed"].get("x-foreign-ts").is_some(), "sn": sn["signed"].get("x-foreign-sn").is_some(), "tg": tg["signed"].get("x-foreign-tg").is_some(),
        "ts_value_kept": ts["signed"].get("x-foreign-ts").map(|v| *v == foreign_value("ts")), "sn_value_kept": sn["signed"].get("x-foreign-sn").map(|v| *v == foreign_value("sn")),
        "tg_value_kept": tg["signed"].get("x-foreign-tg").map(|v| *v == foreign_value("tg"))});
    let day = |d: &Value| d["signed"]["expires"].as_str().unwrap_or("").chars().take(10).collect::<String>();
    json!({"on": true, "roots": roots, "ver": {"ts": tsv, "sn": snv, "tg": tgv}, "exp": {"ts": day(&ts), "sn": day(&sn), "tg": day(&tg)},
           "tset": tset, "extra": extra, "problems": problems})
}

fn foreign_value(r: &str) -> Value {
    json!({"from": r, "list": [1, 2, {"z": null, "a": "é\u{1}"}], "n": 9007199254740993u64})
}

/// files of a targets directory as (name, content id) pairs; `prefixed`: digest-prefixed names
fn inspect_files(w: &World, td: &Path, prefixed: bool) -> Value {
    let mut out: Vec<Value> = Vec::new();
    let mut odd: Vec<String> = Vec::new();
    if let Ok(rd) = std::fs::read_dir(td) {
        for e in rd.flatten() {
            let fname = e.file_name().to_string_lossy().to_string();
            let bytes = std::fs::read(e.path()).unwrap_or_default();
            let name = if prefixed {
                match fname.split_once('.') {
                    Some((h, n)) if h.len() == 64 => {
                        if h != sha256_hex(&bytes) {
                            odd.push(format!("{fname}: content does not have the digest in its name"));
                        }
                        n.to_string()
                    }
                    _ => {
                        odd.push(format!("{fname}: not a digest-prefixed name"));
                        continue;
                    }
                }
            } else {
                fname.clone()
            };
            if !w.names.contains(&name) {
                odd.push(format!("{fname}: unexpected entry"));
                continue;
            }
            out.push(json!([name, w.bytes_id(&name, &bytes)]));
        }
    }
    out.sort_by_key(|v| v.to_string());
    json!({"files": out, "odd": odd})
}

fn inspect_ds(w: &World, ds: &Path) -> Value {
    let v = |f: &str| read_json(&ds.join(f)).map(|d| d["signed"]["version"].as_u64().unwrap_or(0)).unwrap_or(0);
    let sntg = read_json(&ds.join("snapshot.json")).map(|d| d["signed"]["meta"]["targets.json"]["version"].as_u64().unwrap_or(0)).unwrap_or(0);
    // which online keys signed the stored timestamp / snapshot: 1 = the keys of root 1, 2 = the rotated ones
    let ep = |f: &str, a: &str, b: &str| -> u64 {
        match read_json(&ds.join(f)) {
            None => 0,
            Some(d) => if signed_by(&d, &w.keys[a].0) { 1 } else if signed_by(&d, &w.keys[b].0) { 2 } else { 9 },
        }
    };
    json!({"ts": v("timestamp.json"), "sn": v("snapshot.json"), "sntg": sntg, "tg": v("targets.json"),
           "epTs": ep("timestamp.json", "tsA", "tsB"), "epSn": ep("snapshot.json", "snA", "snB")})
}

/// load a pair of directories with a fresh client shipping root 1 and read every name
async fn client_view(w: &World, md: &Path, td: &Path) -> Value {
    let root = std::fs::read(&w.root1).unwrap();
    let mut expired = Value::Null;
    let mut r = RepositoryLoader::new(&root, Url::parse(&furl(md)).unwrap(), Url::parse(&furl(td)).unwrap()).load().await;
    if let Err(e) = &r {
        let c = classify(e);
        if c.starts_with("Expired:") {
            // an enforcing client refuses; look at the repository the way --allow-expired-repo does
            expired = json!(c);
            r = RepositoryLoader::new(&root, Url::parse(&furl(md)).unwrap(), Url::parse(&furl(td)).unwrap())
                .expiration_enforcement(tough::ExpirationEnforcement::Unsafe).load().await;
        }
    }
    match r {
        Err(e) => json!({"loads": false, "err": classify(&e), "expired": expired, "detail": format!("{e}").chars().take(200).collect::<String>()}),
        Ok(repo) => {
            let mut read = Map::new();
            for n in &w.names {
                let tn = TargetName::new(n.as_str()).unwrap();
                let id = match repo.read_target(&tn).await {
                    Ok(Some(s)) => {
                        use tough::IntoVec;
                        match s.into_vec().await {
                            Ok(buf) => w.bytes_id(n, &buf),
                            Err(_) => 0,
                        }
                    }
                    _ => 0,
                };
                read.insert(n.clone(), json!(id));
            }
            json!({"loads": true, "expired": expired, "ver": {"ts": repo.timestamp().signed.version.get(), "sn": repo.snapshot().signed.version.get(), "tg": repo.targets().signed.version.get()},
                   "root": repo.root().signed.version.get(), "read": read})
        }
    }
}

fn names_of(v: &Value) -> Vec<String> {
    let mut x: Vec<String> = v.as_array().map(|a| a.iter().map(|s| s.as_str().unwrap().to_string()).collect()).unwrap_or_default();
    x.sort();
    x
}

/// the harness's own writer: same versions and targets, an unknown member at the top level of
/// every role's signed portion, honest signatures
fn foreign_resign(w: &World) -> Result<(), String> {
    let md = w.p("repo/metadata");
    let ts = read_json(&md.join("timestamp.json")).ok_or("no timestamp")?;
    let snv = ts["signed"]["meta"]["snapshot.json"]["version"].as_u64().unwrap_or(0);
    let sn = read_json(&md.join(format!("{snv}.snapshot.json"))).ok_or("no snapshot")?;
    let tgv = sn["signed"]["meta"]["targets.json"]["version"].as_u64().unwrap_or(0);
    let tg = read_json(&md.join(format!("{tgv}.targets.json"))).ok_or("no targets")?;
    let mut tgs = tg["signed"].clone();
    tgs.as_object_mut().unwrap().insert("x-foreign-tg".into(), foreign_value("tg"));
    let tgb = to_bytes(&envelope(&tgs, &[w.signer("targets")]));
    std::fs::write(md.join(format!("{tgv}.targets.json")), &tgb).map_err(|e| e.to_string())?;
    let mut sns = sn["signed"].clone();
    sns["meta"]["targets.json"] = meta_entry(tgv, Some(tgb.len() as u64), Some(&sha256_hex(&tgb)));
    sns.as_object_mut().unwrap().insert("x-foreign-sn".into(), foreign_value("sn"));
    let snb = to_bytes(&envelope(&sns, &[w.signer("snapshot")]));
    std::fs::write(md.join(format!("{snv}.snapshot.json")), &snb).map_err(|e| e.to_string())?;
    let mut tss = ts["signed"].clone();
    tss["meta"]["snapshot.json"] = meta_entry(snv, Some(snb.len() as u64), Some(&sha256_hex(&snb)));
    tss.as_object_mut().unwrap().insert("x-foreign-ts".into(), foreign_value("ts"));
    let tsb = to_bytes(&envelope(&tss, &[w.signer("timestamp")]));
    std::fs::write(md.join("timestamp.json"), &tsb).map_err(|e| e.to_string())?;
    Ok(())
}

async fn project(w: &World) -> Value {
    let rm = w.p("repo/metadata");
    let rt = w.p("repo/targets");
    let mut pubv = inspect_meta(w, &rm, true);
    if pubv["on"] == true {
        pubv["files"] = inspect_files(w, &rt, true);
        pubv["client"] = client_view(w, &rm, &rt).await;
    }
    let cm = w.p("clone/metadata");
    let ct = w.p("clone/targets");
    let mut cl = inspect_meta(w, &cm, false);
    cl["files"] = inspect_files(w, &ct, true);
    if cl["on"] == true {
        cl["client"] = client_view(w, &cm, &ct).await;
    }
    let listing = |p: PathBuf| -> Vec<String> {
        let mut v: Vec<String> = std::fs::read_dir(p).map(|rd| rd.flatten().map(|e| e.file_name().to_string_lossy().to_string()).collect()).unwrap_or_default();
        v.sort();
        v
    };
    cl["listing"] = json!({"clone": listing(w.p("clone")), "metadata": listing(cm.clone())});
    let dlp = w.p("dl");
    let dl = if dlp.exists() { json!({"on": true, "files": inspect_files(w, &dlp, false)}) } else { json!({"on": false}) };
    json!({"pub": pubv, "cli": inspect_ds(w, &w.p("ds")), "cl": cl, "dl": dl, "top": listing(w.dir.path().to_path_buf())})
}

async fn run_behaviour(tuftool: &str, c: &Value) -> Value {
    let names = names_of(&c["names"]);
    let mut w = World::new(tuftool, names.clone(), c["max_content"].as_u64().unwrap_or(2));
    let mut steps: Vec<Value> = Vec::new();
    let rm_url = furl(&w.p("repo/metadata"));
    let rt_url = furl(&w.p("repo/targets"));
    for s in c["steps"].as_array().unwrap() {
        let cmd = &s["cmd"];
        let act = cmd["act"].as_str().unwrap();
        let (ok, out): (bool, String) = match act {
            "create" => {
                let d = w.indir(&names_of(&cmd["targets"]), 1);
                let mut a: Vec<String> = vec!["create".into(), "-o".into(), w.p("repo").to_str().unwrap().into(), "--root".into(), w.root1.to_str().unwrap().into(),
                    "--add-targets".into(), d.to_str().unwrap().into()];
                a.extend(w.key_args());
                a.extend(w.version_args(&json!({"ts": 1, "sn": 1, "tg": 1}), &Value::Null));
                w.tt(&a)
            }
            "foreign" => match foreign_resign(&w) {
                Ok(()) => (true, String::new()),
                Err(e) => (false, e),
            },
            "update" => {
                let add = names_of(&cmd["add"]);
                let mut a: Vec<String> = vec!["update".into(), "-o".into(), w.p("repo").to_str().unwrap().into(), "--root".into(), w.cur_root.to_str().unwrap().into(),
                    "--metadata-url".into(), rm_url.clone()];
                if !add.is_empty() {
                    let d = w.indir(&add, cmd["content"].as_u64().unwrap());
                    a.extend(["--add-targets".into(), d.to_str().unwrap().into()]);
                }
                a.extend(w.key_args());
                a.extend(w.version_args(&cmd["ver"], &cmd["exp"]));
                if cmd["allow"] == true {
                    a.push("--allow-expired-repo".into());
                }
                w.tt(&a)
            }
            "transfer" => {
                let kind = cmd["kind"].as_str().unwrap().to_string();
                let mut newroot = w.root2[&kind].clone();
                if c["tool_roots"] == true {
                    // the new root is produced the way an operator would: copy, `tuftool root bump-version`,
                    // exchange the online keys, `tuftool root sign`
                    let p = w.p(&format!("root2-{kind}-by-tuftool.json"));
                    std::fs::copy(&w.root1, &p).unwrap();
                    let ps = p.to_str().unwrap().to_string();
                    let mut script: Vec<Vec<String>> = vec![vec!["root".into(), "bump-version".into(), ps.clone()]];
                    if kind == "online" {
                        for (role, old, new) in [("timestamp", "tsA", "tsB"), ("snapshot", "snA", "snB")] {
                            script.push(vec!["root".into(), "add-key".into(), ps.clone(), "-k".into(), w.keys[new].1.to_str().unwrap().into(), "-r".into(), role.into()]);
                            script.push(vec!["root".into(), "remove-key".into(), ps.clone(), w.keys[old].0.keyid.clone()]);
                        }
                    }
                    script.push(vec!["root".into(), "sign".into(), ps.clone(), "-k".into(), w.keys["root"].1.to_str().unwrap().into()]);
                    let mut failed = None;
                    for a in &script {
                        let r = w.tt(a);
                        if !r.0 {
                            failed = Some(format!("tuftool {:?} failed: {}", &a[..2], r.1));
                            break;
                        }
                    }
                    match failed {
                        None => newroot = p,
                        Some(f) => {
                            let obs = project(&w).await;
                            steps.push(json!({"cmd": cmd, "ok": false, "out": f, "obs": obs}));
                            continue;
                        }
                    }
                }
                let old_root = w.cur_root.clone();
                w.rot = kind;
                let mut a: Vec<String> = vec!["transfer-metadata".into(), "-o".into(), w.p("repo").to_str().unwrap().into(),
                    "--current-root".into(), old_root.to_str().unwrap().into(), "--new-root".into(), newroot.to_str().unwrap().into(),
                    "--metadata-url".into(), rm_url.clone(), "--targets-url".into(), rt_url.clone()];
                a.extend(w.key_args());
                a.extend(w.version_args(&cmd["ver"], &cmd["exp"]));
                if cmd["allow"] == true {
                    a.push("--allow-expired-repo".into());
                }
                let r = w.tt(&a);
                if r.0 {
                    w.cur_root = newroot;
                } else {
                    w.rot = "none".into();
                }
                r
            }
            "refresh" => {
                // the client ships root 1, or (newest) the root the repository was transferred to
                let root = std::fs::read(if cmd["newest"] == true { &w.cur_root } else { &w.root1 }).unwrap();
                let ds = w.p("ds");
                std::fs::create_dir_all(&ds).unwrap();
                let r = guard(RepositoryLoader::new(&root, Url::parse(&rm_url).unwrap(), Url::parse(&rt_url).unwrap()).datastore(&ds).load()).await;
                match r {
                    Ok(Ok(_)) => (true, String::new()),
                    Ok(Err(e)) => (false, classify(&e)),
                    Err(p) => (false, format!("panic:{p}")),
                }
            }
            "clone" | "download" => {
                let mut a: Vec<String> = if act == "clone" {
                    vec!["clone".into(), "--root".into(), w.root1.to_str().unwrap().into(), "--metadata-url".into(), rm_url.clone(), "--targets-url".into(), rt_url.clone(),
                         "--metadata-dir".into(), w.p("clone/metadata").to_str().unwrap().into(), "--targets-dir".into(), w.p("clone/targets").to_str().unwrap().into()]
                } else {
                    vec!["download".into(), "--root".into(), w.root1.to_str().unwrap().into(), "--metadata-url".into(), rm_url.clone(), "--targets-url".into(), rt_url.clone()]
                };
                if !cmd["all"].as_bool().unwrap() {
                    for n in names.iter().filter(|n| names_of(&cmd["names"]).contains(n)) {
                        a.extend(["-n".into(), n.clone()]);
                    }
                }
                if cmd["allow"] == true {
                    a.push("--allow-expired-repo".into());
                }
                if act == "download" {
                    a.push(w.p("dl").to_str().unwrap().into());
                }
                w.tt(&a)
            }
            x => panic!("act {x}"),
        };
        let obs = project(&w).await;
        steps.push(json!({"cmd": cmd, "ok": ok, "out": out, "obs": obs}));
    }
    json!({"in": c, "steps": steps})
}

pub fn run(args: &[String]) {
    let cases = read_ndjson(&arg(args, "--cases").expect("--cases"));
    let out = arg(args, "--out").expect("--out");
    let tuftool = arg(args, "--tuftool").expect("--tuftool");
    let rows = par_map(cases, threads().min(6), move |_, c| {
        let tuftool = tuftool.clone();
        async move {
            match guard(run_behaviour(&tuftool, &c)).await {
                Ok(v) => v,
                Err(p) => json!({"in": c, "error": format!("panic:{p}")}),
            }
        }
    });
    write_ndjson(&out, &rows);
}
