//! C12: signatures bind all content the client uses; roles cannot be swapped.
//! Builds a repository whose documents carry unknown members at every struct-like object level,
//! then serves every single-point mutation of every document (original signatures kept) and
//! records whether the client accepts it and what content it then uses.

use crate::base::*;
use crate::c11::{real_canon, OV};
use crate::mem::MemTransport;
use crate::util::*;
use serde_json::{json, Map, Value};
use std::collections::BTreeMap;

const EXP: i64 = BASE_TIME + 3650 * DAY;

struct XK {
    k: K,
    public: Value,
    id: String,
}
fn xkey(n: u64, extras: bool) -> XK {
    let k = ed_key(n);
    let mut public = k.public.clone();
    if extras {
        public["x-key-extra"] = json!({"note": "carried along"});
        public["keyval"]["x-keyval-extra"] = json!(7);
    }
    let id = sha256_hex(&canon(&public));
    XK { k, public, id }
}
fn sign_with(signed: &Value, keys: &[&XK]) -> Value {
    let msg = canon(signed);
    let sigs: Vec<Value> = keys.iter().map(|x| json!({"keyid": x.id, "sig": hex::encode(x.k.sign(&msg))})).collect();
    json!({"signed": signed, "signatures": sigs})
}

pub struct Base {
    docs: BTreeMap<String, Value>, // role -> envelope ("root", "root2", "timestamp", "snapshot", "targets", "d")
}

fn role_entry(ids: &[&str], extras: bool) -> Value {
    let mut v = json!({"keyids": ids, "threshold": 1});
    if extras {
        v["x-role-extra"] = json!(true);
    }
    v
}

/// `share`: timestamp and snapshot are held by the same key (role-swap cases)
fn base(extras: bool, share: bool, f11: Option<&str>) -> Base {
    let r = xkey(100, extras);
    let t = xkey(101, extras);
    let s = if share { xkey(101, extras) } else { xkey(102, extras) };
    // with `share` the three online roles are held by one key
    let g = if share { xkey(101, extras) } else { xkey(103, extras) };
    let d = xkey(104, extras);
    let mk_root = |version: u64| -> Value {
        let mut keys = Map::new();
        for x in [&r, &t, &s, &g] {
            keys.insert(x.id.clone(), x.public.clone());
        }
        let mut v = json!({"_type":"root","spec_version":"1.0.0","consistent_snapshot":false,"version":version,
            "expires":rfc3339(EXP),"keys":keys,
            "roles":{"root":role_entry(&[&r.id], extras),"timestamp":role_entry(&[&t.id], extras),
                     "snapshot":role_entry(&[&s.id], extras),"targets":role_entry(&[&g.id], extras)}});
        if extras {
            v["x-root-extra"] = json!({"nested":[1,2,{"deep":"v"}],"flag":false});
        }
        v
    };
    let content = b"the one target".to_vec();
    let dcontent = b"delegated target".to_vec();
    let mut tentry = target_entry(&content);
    tentry["custom"] = json!({"c": {"n": [1, 2], "s": "x"}});
    if extras {
        tentry["x-target-extra"] = json!("t");
        tentry["hashes"]["x-thash-extra"] = json!(1);
    }
    let mut dkeys = Map::new();
    dkeys.insert(d.id.clone(), d.public.clone());
    let mut drole = json!({"name":"d","keyids":[d.id],"threshold":1,"paths":["d/*"],"terminating":false});
    let mut delegations = json!({"keys": dkeys, "roles": []});
    match f11 {
        Some("delegations") => delegations["x-foreign"] = json!(1),
        Some("delegations.roles[i]") => drole["x-foreign"] = json!(1),
        _ => {}
    }
    delegations["roles"] = json!([drole]);
    let mut tg = json!({"_type":"targets","spec_version":"1.0.0","version":1,"expires":rfc3339(EXP),
        "targets":{"file.txt": tentry, "odd \"name\\ \u{e9}.txt": target_entry(b"oddly named")},"delegations":delegations});
    let mut dd = json!({"_type":"targets","spec_version":"1.0.0","version":1,"expires":rfc3339(EXP),
        "targets":{"d/x.txt": target_entry(&dcontent)}});
    let d_env_probe = to_bytes(&sign_with(&dd, &[&d]));
    let mut dmeta = json!({"version":1,"hashes":{"sha256": sha256_hex(&d_env_probe)}});
    let mut tmeta = json!({"version":1});
    let mut sn = json!({"_type":"snapshot","spec_version":"1.0.0","version":1,"expires":rfc3339(EXP),"meta":{}});
    let mut smeta = json!({"version":1});
    let mut ts = json!({"_type":"timestamp","spec_version":"1.0.0","version":1,"expires":rfc3339(EXP),"meta":{}});
    if extras {
        tg["x-tg-extra"] = json!([{"a":1}]);
        dd["x-d-extra"] = json!(1);
        dmeta["x-meta-extra"] = json!("m");
        dmeta["hashes"]["x-hashes-extra"] = json!("h");
        tmeta["x-meta-extra"] = json!("m2");
        sn["x-sn-extra"] = json!({"k":"v"});
        smeta["x-meta-extra"] = json!(3);
        ts["x-ts-extra"] = json!(5);
    }
    // the delegated role's file digest listed in snapshot must be that of the final file
    let d_env = sign_with(&dd, &[&d]);
    dmeta["hashes"]["sha256"] = json!(sha256_hex(&to_bytes(&d_env)));
    sn["meta"] = json!({"targets.json": tmeta, "d.json": dmeta});
    ts["meta"] = json!({"snapshot.json": smeta});
    let mut docs = BTreeMap::new();
    docs.insert("root".into(), sign_with(&mk_root(1), &[&r]));
    docs.insert("root2".into(), sign_with(&mk_root(2), &[&r]));
    docs.insert("timestamp".into(), sign_with(&ts, &[&t]));
    // a timestamp whose meta also lists what a snapshot lists (extra entries, as another
    // implementation may write them): served in place of snapshot.json it would let a whole load
    // succeed if the role tag were not bound
    let mut tsw = ts.clone();
    tsw["meta"] = json!({"snapshot.json": ts["meta"]["snapshot.json"].clone(), "targets.json": sn["meta"]["targets.json"].clone(), "d.json": sn["meta"]["d.json"].clone()});
    docs.insert("timestamp-wide".into(), sign_with(&tsw, &[&t]));
    docs.insert("snapshot".into(), sign_with(&sn, &[&s]));
    docs.insert("targets".into(), sign_with(&tg, &[&g]));
    docs.insert("d".into(), d_env);
    Base { docs }
}

fn transport_for(b: &Base, overrides: &BTreeMap<String, Vec<u8>>, with_root2: bool) -> (MemTransport, Vec<u8>) {
    let t = MemTransport::new();
    let get = |role: &str| -> Vec<u8> { overrides.get(role).cloned().unwrap_or_else(|| to_bytes(&b.docs[role])) };
    t.put_body("metadata/timestamp.json", get("timestamp"));
    t.put_body("metadata/snapshot.json", get("snapshot"));
    t.put_body("metadata/targets.json", get("targets"));
    t.put_body("metadata/d.json", get("d"));
    if with_root2 || overrides.contains_key("root2") {
        t.put_body("metadata/2.root.json", get("root2"));
    }
    (t, get("root"))
}

/// after a successful load: the signed portion the client now holds for `role`
fn used(repo: &tough::Repository, role: &str) -> Value {
    match role {
        "root" | "root2" => serde_json::to_value(&repo.root().signed).unwrap(),
        "timestamp" => serde_json::to_value(&repo.timestamp().signed).unwrap(),
        "snapshot" => serde_json::to_value(&repo.snapshot().signed).unwrap(),
        "targets" => serde_json::to_value(&repo.targets().signed).unwrap(),
        _ => repo
            .delegated_role("d")
            .and_then(|r| r.targets.as_ref())
            .map(|t| serde_json::to_value(&t.signed).unwrap())
            .unwrap_or(Value::Null),
    }
}

fn class_of(path: &[String], under_array: bool) -> String {
    // path: keys from `signed` down to the OBJECT (or array) that holds the mutated member
    let p: Vec<&str> = path.iter().map(|s| s.as_str()).collect();
    if under_array {
        return "array".into();
    }
    match p.as_slice() {
        [] => "signed".into(),
        ["roles", _] => "root.roles[r]".into(),
        ["keys", _] => "root.keys[k]".into(),
        ["keys", _, "keyval"] => "root.keys[k].keyval".into(),
        ["meta", _] => "meta[f]".into(),
        ["meta", _, "hashes"] => "meta[f].hashes".into(),
        ["targets", _] => "targets[t]".into(),
        ["targets", _, "hashes"] => "targets[t].hashes".into(),
        ["targets", _, "custom", ..] => "targets[t].custom".into(),
        ["delegations"] => "delegations".into(),
        ["delegations", "keys", _] => "delegations.keys[k]".into(),
        ["delegations", "keys", _, "keyval"] => "delegations.keys[k].keyval".into(),
        ["delegations", "roles", _] => "delegations.roles[i]".into(),
        _ => "map".into(), // map-like objects (keys, roles, meta, targets, delegations.keys): entries, not members
    }
}

struct Mutant {
    role: String,
    path: String,
    class: String,
    kind: String,
    doc: Value, // the mutated envelope
}

fn changed(v: &Value) -> Value {
    match v {
        Value::Null => json!(0),
        Value::Bool(b) => json!(!b),
        Value::Number(n) => json!(n.as_u64().unwrap_or(0) + 1),
        Value::String(s) => {
            // keep hex strings hex and dates dates, so that the change is not a parse error only
            if s.len() >= 2 && s.chars().all(|c| c.is_ascii_hexdigit()) {
                let mut c: Vec<char> = s.chars().collect();
                let l = c.len();
                c[l - 1] = if c[l - 1] == '0' { '1' } else { '0' };
                json!(c.into_iter().collect::<String>())
            } else if s.ends_with('Z') && s.contains('T') {
                json!(s.replacen("20", "21", 1))
            } else {
                json!(format!("{s}x"))
            }
        }
        other => other.clone(),
    }
}

fn walk(role: &str, env: &Value, cur: &Value, path: &mut Vec<String>, under_array: bool, out: &mut Vec<Mutant>) {
    let set_at = |p: &[String], f: &dyn Fn(&mut Value)| -> Value {
        let mut e = env.clone();
        let mut node = &mut e["signed"];
        for k in p {
            node = if node.is_array() { &mut node[k.parse::<usize>().unwrap()] } else { &mut node[k.as_str()] };
        }
        f(node);
        e
    };
    let ptr = |p: &[String]| format!("/{}", p.join("/"));
    match cur {
        Value::Object(m) => {
            let cls = class_of(path, under_array);
            for (k, v) in m {
                if path.is_empty() && k == "_type" {
                    continue; // handled as the type-tag mutation
                }
                // delete this member
                let kk = k.clone();
                out.push(Mutant { role: role.into(), path: format!("{}/{}", ptr(path), k), class: cls.clone(), kind: "delete".into(),
                    doc: set_at(path, &move |n: &mut Value| { n.as_object_mut().unwrap().remove(&kk); }) });
                path.push(k.clone());
                if v.is_object() || v.is_array() {
                    walk(role, env, v, path, false, out);
                } else {
                    let nv = changed(v);
                    out.push(Mutant { role: role.into(), path: ptr(path), class: cls.clone(), kind: "change".into(),
                        doc: set_at(path, &move |n: &mut Value| { *n = nv.clone(); }) });
                }
                path.pop();
            }
            if cls != "map" {
                out.push(Mutant { role: role.into(), path: format!("{}/zz-inserted", ptr(path)), class: cls, kind: "insert".into(),
                    doc: set_at(path, &|n: &mut Value| { n["zz-inserted"] = json!({"q": 1}); }) });
            }
        }
        Value::Array(a) => {
            for (i, v) in a.iter().enumerate() {
                path.push(i.to_string());
                if v.is_object() || v.is_array() {
                    // members of objects inside arrays keep their own class (delegations.roles[i])
                    walk(role, env, v, path, false, out);
                } else {
                    let nv = changed(v);
                    out.push(Mutant { role: role.into(), path: ptr(path), class: "array".into(), kind: "change".into(),
                        doc: set_at(path, &move |n: &mut Value| { *n = nv.clone(); }) });
                }
                path.pop();
            }
            let n = a.len();
            if n > 0 {
                out.push(Mutant { role: role.into(), path: format!("{}/-", ptr(path)), class: "array".into(), kind: "delete".into(),
                    doc: set_at(path, &|x: &mut Value| { x.as_array_mut().unwrap().pop(); }) });
            }
        }
        _ => {}
    }
}

fn to_ov_reversed(v: &Value) -> OV {
    match v {
        Value::Null => OV::Null,
        Value::Bool(b) => OV::Bool(*b),
        Value::Number(n) => OV::UInt(n.as_u64().unwrap()),
        Value::String(s) => OV::Str(s.clone()),
        Value::Array(a) => OV::Arr(a.iter().map(to_ov_reversed).collect()),
        Value::Object(m) => OV::Obj(m.iter().rev().map(|(k, v)| (k.clone(), to_ov_reversed(v))).collect()),
    }
}

async fn try_load(b: &Base, role: &str, bytes: Vec<u8>, original: &Value) -> Value {
    let mut ov = BTreeMap::new();
    ov.insert(role.to_string(), bytes);
    let (t, shipped) = transport_for(b, &ov, role == "root2");
    match guard(load(&shipped, &t, None, None, true)).await {
        Err(p) => json!({"accepted": false, "cls": format!("panic:{p}")}),
        Ok(Err(e)) => json!({"accepted": false, "cls": classify(&e)}),
        Ok(Ok(repo)) => {
            if role == "root2" && repo.root().signed.version.get() != 2 {
                // the update was not adopted (cannot happen silently for a parsable newer root)
                return json!({"accepted": false, "cls": "not-adopted"});
            }
            let u = used(&repo, role);
            json!({"accepted": true, "cls": "ok", "used_equals_signed_original": u == original["signed"],
                   "used": if u == original["signed"] { Value::Null } else { u }})
        }
    }
}

pub fn run(args: &[String]) {
    let out = arg(args, "--out").expect("--out");
    let stride: usize = arg_or(args, "--stride", "1").parse().unwrap();
    let offset: usize = arg_or(args, "--offset", "0").parse().unwrap();
    let b = std::sync::Arc::new(base(true, false, None));
    let mut mutants: Vec<Mutant> = Vec::new();
    for role in ["root", "root2", "timestamp", "snapshot", "targets", "d"] {
        let env = &b.docs[role];
        let mut path = Vec::new();
        walk(role, env, &env["signed"], &mut path, false, &mut mutants);
        // harmless transformations
        let rev = real_canon(&to_ov_reversed(env)).ok().and_then(|_| serde_json::to_vec(&to_ov_reversed(env)).ok()).unwrap();
        mutants.push(Mutant { role: role.into(), path: "*".into(), class: "signed".into(), kind: "reorder".into(), doc: serde_json::from_slice(&rev).unwrap_or(env.clone()) });
        mutants.push(Mutant { role: role.into(), path: "*".into(), class: "signed".into(), kind: "reformat".into(), doc: env.clone() });
        mutants.push(Mutant { role: role.into(), path: "*".into(), class: "signed".into(), kind: "respell".into(), doc: env.clone() });
        let mut e2 = env.clone();
        e2["signatures"].as_array_mut().unwrap().push(json!({"keyid": "ab".repeat(32), "sig": "00ff"}));
        mutants.push(Mutant { role: role.into(), path: "/signatures/-".into(), class: "signed".into(), kind: "extra-signature".into(), doc: e2 });
        // rewritten role tag
        let other = if role == "timestamp" { "snapshot" } else { "timestamp" };
        let mut e3 = env.clone();
        e3["signed"]["_type"] = json!(other);
        mutants.push(Mutant { role: role.into(), path: "/_type".into(), class: "signed".into(), kind: "type-tag".into(), doc: e3 });
    }
    let jobs: Vec<(usize, Mutant)> = mutants.into_iter().enumerate().filter(|(i, m)| m.kind != "change" && m.kind != "delete" && m.kind != "insert" || i % stride == offset % stride).collect();
    let bb = b.clone();
    let mut rows = par_map(jobs, threads(), move |_, (_, m)| {
        let b = bb.clone();
        async move {
            let bytes = match m.kind.as_str() {
                "reformat" => to_bytes_alt(&m.doc),
                "respell" => to_bytes_escaped(&m.doc),
                "reorder" => serde_json::to_vec(&to_ov_reversed(&b.docs[&m.role])).unwrap(),
                _ => to_bytes(&m.doc),
            };
            let orig = b.docs[&m.role].clone();
            let r = try_load(&b, &m.role, bytes, &orig).await;
            json!({"role": m.role, "path": m.path, "class": m.class, "kind": m.kind, "obs": r})
        }
    });
    // the unmutated repository itself: documents with foreign members at every kept level verify
    let rt = tokio::runtime::Builder::new_current_thread().enable_all().build().unwrap();
    for role in ["root", "root2", "timestamp", "snapshot", "targets", "d"] {
        let r = rt.block_on(try_load(&b, role, to_bytes(&b.docs[role]), &b.docs[role]));
        rows.push(json!({"role": role, "path": "", "class": "all-kept-classes", "kind": "foreign", "obs": r}));
    }
    // foreign members at the two levels without a catch-all map
    for cls in ["delegations", "delegations.roles[i]"] {
        let fb = base(true, false, Some(cls));
        let r = rt.block_on(try_load(&fb, "targets", to_bytes(&fb.docs["targets"]), &fb.docs["targets"]));
        rows.push(json!({"role": "targets", "path": cls, "class": cls, "kind": "foreign", "obs": r}));
    }
    // role swap with a shared key: a snapshot served as timestamp and the reverse
    let sb = base(true, true, None);
    for (site, doc) in [("timestamp", "snapshot"), ("snapshot", "timestamp")] {
        let r = rt.block_on(try_load(&sb, site, to_bytes(&sb.docs[doc]), &sb.docs[site]));
        rows.push(json!({"role": site, "path": format!("served:{doc}"), "class": "signed", "kind": "role-swap", "obs": r}));
    }
    // the same with a timestamp that lists everything a snapshot lists, served as both
    {
        let mut ov = BTreeMap::new();
        ov.insert("timestamp".to_string(), to_bytes(&sb.docs["timestamp-wide"]));
        ov.insert("snapshot".to_string(), to_bytes(&sb.docs["timestamp-wide"]));
        let (t, shipped) = transport_for(&sb, &ov, false);
        let r = match rt.block_on(guard(load(&shipped, &t, None, None, true))) {
            Err(p) => json!({"accepted": false, "cls": format!("panic:{p}")}),
            Ok(Err(e)) => json!({"accepted": false, "cls": classify(&e)}),
            Ok(Ok(_)) => json!({"accepted": true, "cls": "ok", "used_equals_signed_original": false}),
        };
        rows.push(json!({"role": "snapshot", "path": "served:timestamp-wide", "class": "signed", "kind": "role-swap", "obs": r}));
    }
    // role swap at the verification API: every document of an online role parsed as every other
    // online role type and verified under a root in which one key holds all three roles
    for site in ["timestamp", "snapshot", "targets"] {
        for doc in ["timestamp", "timestamp-wide", "snapshot", "targets"] {
            if doc.starts_with(site) {
                continue;
            }
            let r = api_verify(&sb, site, doc);
            rows.push(json!({"role": site, "path": format!("api:{doc}"), "class": "signed", "kind": "role-swap", "obs": r}));
        }
    }
    write_ndjson(&out, &rows);
}

fn api_verify(b: &Base, site: &str, doc: &str) -> Value {
    use tough::schema::{Root, Signed, Snapshot, Targets, Timestamp};
    let root: Signed<Root> = serde_json::from_slice(&to_bytes(&b.docs["root"])).expect("root parses");
    let bytes = to_bytes(&b.docs[doc]);
    let res: Result<(), String> = match site {
        "timestamp" => serde_json::from_slice::<Signed<Timestamp>>(&bytes).map_err(|e| format!("parse: {e}"))
            .and_then(|s| root.signed.verify_role(&s).map_err(|e| format!("verify: {e}"))),
        "snapshot" => serde_json::from_slice::<Signed<Snapshot>>(&bytes).map_err(|e| format!("parse: {e}"))
            .and_then(|s| root.signed.verify_role(&s).map_err(|e| format!("verify: {e}"))),
        _ => serde_json::from_slice::<Signed<Targets>>(&bytes).map_err(|e| format!("parse: {e}"))
            .and_then(|s| root.signed.verify_role(&s).map_err(|e| format!("verify: {e}"))),
    };
    match res {
        Ok(()) => json!({"accepted": true, "cls": "ok", "used_equals_signed_original": false}),
        Err(e) => json!({"accepted": false, "cls": e.chars().take(80).collect::<String>()}),
    }
}
