//! C18: the real HttpTransport against a scripted raw-TCP HTTP/1.1 server.
//!
//! Behaviours come from Http.tla: {tries, size, announce, answers:[{a,k}], reqs, result, delivered}.

use crate::util::*;
use futures::StreamExt;
use serde_json::{json, Value};
use std::collections::{HashMap, VecDeque};
use std::io::{Read, Write};
use std::net::{TcpListener, TcpStream};
use std::sync::{Arc, Mutex};
use std::time::Duration;
use tough::{HttpTransportBuilder, Transport, TransportErrorKind};

#[derive(Clone, Debug)]
struct Answer {
    a: String,
    k: usize,
}

#[derive(Default)]
struct Fetch {
    script: VecDeque<Answer>,
    resource: Arc<Vec<u8>>,
    unit: usize,
    announce: bool,
    log: Vec<Value>,
}

type Shared = Arc<Mutex<HashMap<String, Fetch>>>;

pub fn resource(len: usize) -> Vec<u8> {
    (0..len).map(|p| (((p as u64).wrapping_mul(2654435761) >> 13) ^ (p as u64 >> 3)) as u8).collect()
}

fn handle(mut s: TcpStream, shared: Shared, stall: Duration) {
    let _ = s.set_read_timeout(Some(Duration::from_secs(2)));
    let mut buf = Vec::new();
    let mut tmp = [0u8; 1024];
    loop {
        match s.read(&mut tmp) {
            Ok(0) | Err(_) => return,
            Ok(n) => {
                buf.extend_from_slice(&tmp[..n]);
                if buf.windows(4).any(|w| w == b"\r\n\r\n") {
                    break;
                }
            }
        }
    }
    let text = String::from_utf8_lossy(&buf).to_string();
    let mut lines = text.split("\r\n");
    let reqline = lines.next().unwrap_or("").to_string();
    let path = reqline.split(' ').nth(1).unwrap_or("").to_string();
    let mut range: Option<String> = None;
    for l in lines {
        if let Some((h, v)) = l.split_once(':') {
            if h.eq_ignore_ascii_case("range") {
                range = Some(v.trim().to_string());
            }
        }
    }
    let id = path.trim_start_matches("/f/").to_string();
    let (ans, res, announce, unit) = {
        let mut g = shared.lock().unwrap();
        let f = match g.get_mut(&id) {
            Some(f) => f,
            None => {
                let _ = s.write_all(b"HTTP/1.1 404 Not Found\r\nContent-Length: 0\r\nConnection: close\r\n\r\n");
                return;
            }
        };
        let ans = f.script.pop_front().unwrap_or(Answer { a: "200full".into(), k: 0 });
        f.log.push(json!({"range": range, "answer": ans.a, "k": ans.k}));
        (ans, f.resource.clone(), f.announce, f.unit)
    };
    let ar = if announce { "Accept-Ranges: bytes\r\n" } else { "" };
    let start: Option<usize> = range
        .as_ref()
        .and_then(|r| r.strip_prefix("bytes="))
        .and_then(|r| r.strip_suffix('-'))
        .and_then(|r| r.parse().ok());
    let status_only = |s: &mut TcpStream, code: &str| {
        let body = b"x";
        let _ = s.write_all(
            format!("HTTP/1.1 {code}\r\nContent-Length: {}\r\nConnection: close\r\n\r\n", body.len()).as_bytes(),
        );
        let _ = s.write_all(body);
    };
    match ans.a.as_str() {
        "200full" => {
            let _ = s.write_all(
                format!("HTTP/1.1 200 OK\r\n{ar}Content-Length: {}\r\nConnection: close\r\n\r\n", res.len()).as_bytes(),
            );
            let _ = s.write_all(&res);
        }
        "206rest" => match start {
            Some(a) if a <= res.len() => {
                let _ = s.write_all(
                    format!(
                        "HTTP/1.1 206 Partial Content\r\n{ar}Content-Range: bytes {}-{}/{}\r\nContent-Length: {}\r\nConnection: close\r\n\r\n",
                        a,
                        res.len().saturating_sub(1),
                        res.len(),
                        res.len() - a
                    )
                    .as_bytes(),
                );
                let _ = s.write_all(&res[a..]);
            }
            _ => {
                let _ = s.write_all(
                    format!("HTTP/1.1 200 OK\r\n{ar}Content-Length: {}\r\nConnection: close\r\n\r\n", res.len()).as_bytes(),
                );
                let _ = s.write_all(&res);
            }
        },
        "stall" => {
            let n = (ans.k * unit).min(res.len());
            let _ = s.write_all(
                format!("HTTP/1.1 200 OK\r\n{ar}Content-Length: {}\r\nConnection: close\r\n\r\n", res.len()).as_bytes(),
            );
            let _ = s.write_all(&res[..n]);
            let _ = s.flush();
            std::thread::sleep(stall);
        }
        "500" => status_only(&mut s, "500 Internal Server Error"),
        "403" => status_only(&mut s, "403 Forbidden"),
        "404" => status_only(&mut s, "404 Not Found"),
        "410" => status_only(&mut s, "410 Gone"),
        "400" => status_only(&mut s, "400 Bad Request"),
        "416" => status_only(&mut s, "416 Range Not Satisfiable"),
        _ => status_only(&mut s, "500 Internal Server Error"),
    }
    let _ = s.flush();
}

pub fn run(args: &[String]) {
    let beh = read_ndjson(&arg(args, "--behaviours").expect("--behaviours"));
    let out = arg(args, "--out").expect("--out");
    let unit: usize = arg_or(args, "--unit", "1").parse().unwrap();
    let timeout_ms: u64 = arg_or(args, "--timeout-ms", "150").parse().unwrap();
    let conc: usize = arg_or(args, "--concurrency", "48").parse().unwrap();
    let shared: Shared = Arc::new(Mutex::new(HashMap::new()));
    let listener = TcpListener::bind("127.0.0.1:0").expect("bind");
    let port = listener.local_addr().unwrap().port();
    {
        let shared = shared.clone();
        let stall = Duration::from_millis(timeout_ms * 3);
        std::thread::spawn(move || {
            for c in listener.incoming() {
                if let Ok(s) = c {
                    let sh = shared.clone();
                    std::thread::spawn(move || handle(s, sh, stall));
                }
            }
        });
    }
    for (i, b) in beh.iter().enumerate() {
        let size = b["size"].as_u64().unwrap() as usize * unit;
        let script: VecDeque<Answer> = b["answers"]
            .as_array()
            .unwrap()
            .iter()
            .map(|a| Answer { a: a["a"].as_str().unwrap().to_string(), k: a["k"].as_u64().unwrap() as usize })
            .collect();
        shared.lock().unwrap().insert(
            i.to_string(),
            Fetch { script, resource: Arc::new(resource(size)), unit, announce: b["announce"].as_bool().unwrap(), log: vec![] },
        );
    }
    let rt = tokio::runtime::Builder::new_multi_thread().worker_threads(8).enable_all().build().unwrap();
    let results: Vec<Value> = rt.block_on(async {
        let sem = Arc::new(tokio::sync::Semaphore::new(conc));
        let mut hs = Vec::new();
        for (i, b) in beh.iter().enumerate() {
            let sem = sem.clone();
            let tries = b["tries"].as_u64().unwrap() as u32;
            let size = b["size"].as_u64().unwrap() as usize * unit;
            hs.push(tokio::spawn(async move {
                let _p = sem.acquire().await.unwrap();
                let t = HttpTransportBuilder::new()
                    .tries(tries)
                    .timeout(Duration::from_millis(timeout_ms))
                    .connect_timeout(Duration::from_millis(1000))
                    .initial_backoff(Duration::from_millis(1))
                    .max_backoff(Duration::from_millis(2))
                    .backoff_factor(1.0)
                    .build();
                let url = url::Url::parse(&format!("http://127.0.0.1:{port}/f/{i}")).unwrap();
                let mut got: Vec<u8> = Vec::new();
                let mut result = "ok".to_string();
                let mut detail = String::new();
                match t.fetch(url).await {
                    Err(e) => {
                        result = if e.kind() == TransportErrorKind::FileNotFound { "notfound".into() } else { "error".into() };
                        detail = format!("{e}");
                    }
                    Ok(mut s) => {
                        while let Some(item) = s.next().await {
                            match item {
                                Ok(b) => got.extend_from_slice(&b),
                                Err(e) => {
                                    result = if e.kind() == TransportErrorKind::FileNotFound { "notfound".into() } else { "error".into() };
                                    detail = format!("{e}");
                                    break;
                                }
                            }
                        }
                    }
                }
                let res = resource(size);
                let is_prefix = got.len() <= res.len() && res[..got.len()] == got[..];
                json!({"result": result, "detail": detail.chars().take(200).collect::<String>(),
                       "got_bytes": got.len(), "is_prefix": is_prefix, "complete": got == res})
            }));
        }
        let mut out = Vec::new();
        for h in hs {
            out.push(h.await.unwrap_or_else(|e| json!({"result": format!("panic:{e}")})));
        }
        out
    });
    let g = shared.lock().unwrap();
    let rows: Vec<Value> = beh
        .iter()
        .enumerate()
        .map(|(i, b)| json!({"b": b, "unit": unit, "obs": results[i], "server_log": g.get(&i.to_string()).map(|f| f.log.clone()).unwrap_or_default(),
                              "unconsumed": g.get(&i.to_string()).map(|f| f.script.len()).unwrap_or(0)}))
        .collect();
    write_ndjson(&out, &rows);
}
