//! C01: threshold of distinct authorized keys -- replay of the cases enumerated by Threshold.tla.
//!
//! Input: ndjson of cases {nkeys, thr, list:[{kind,k}], accept}. Each case is realised at each
//! requested site with real keys and signatures and decided by the real code.

use crate::base::*;
use crate::mem::MemTransport;
use crate::util::*;
use serde_json::{json, Map, Value};

const EXP: i64 = BASE_TIME + 3650 * DAY;

struct Pool {
    a: Vec<K>, // authorized, in table (index 0 unused)
    m: K,      // authorized id, absent from the table
    o: K,      // in table, listed for another role
    u: K,      // in no table
    r: K,
    t: K,
    s: K,
    g: K,
    d: K,
    b: K,
}

fn pool(alg: &str) -> Pool {
    Pool {
        a: (0..5).map(|i| make_key(alg, i)).collect(),
        m: make_key(alg, 5),
        o: make_key(alg, 6),
        u: make_key(alg, 7),
        r: ed_key(100),
        t: ed_key(101),
        s: ed_key(102),
        g: ed_key(103),
        d: ed_key(104),
        b: ed_key(105),
    }
}

fn sig_list(p: &Pool, list: &[Value], signed: &Value) -> Vec<Value> {
    let msg = canon(signed);
    let mut other = signed.clone();
    let ov = other["version"].as_u64().unwrap_or(1) + 1000;
    other["version"] = json!(ov);
    let other_msg = canon(&other);
    list.iter()
        .map(|e| {
            let k = e["k"].as_u64().unwrap() as usize;
            match e["kind"].as_str().unwrap() {
                "good" => p.a[k].sig_entry(&msg),
                "corrupt" => {
                    let mut s = p.a[k].sign(&msg);
                    let n = s.len();
                    s[n / 2] ^= 0x01;
                    json!({"keyid": p.a[k].keyid, "sig": hex::encode(s)})
                }
                "other" => p.a[k].sig_entry(&other_msg),
                "otherRole" => p.o.sig_entry(&msg),
                "unknown" => p.u.sig_entry(&msg),
                "missing" => p.m.sig_entry(&msg),
                x => panic!("kind {x}"),
            }
        })
        .collect()
}

fn auth_ids(p: &Pool, nkeys: usize) -> Vec<String> {
    let mut v: Vec<String> = (1..=nkeys).map(|i| p.a[i].keyid.clone()).collect();
    v.push(p.m.keyid.clone()); // authorized but never in the table
    v
}

struct Built {
    shipped: Vec<u8>,
    files: Vec<(String, Vec<u8>)>,
}

/// The root for a top-level site: role `site_role` is held by A-keys (+missing), O is an extra
/// key of a different role.
fn root_for(p: &Pool, version: u64, site_role: &str, nkeys: usize, thr: u64, root_holder: &K) -> Value {
    let mut table: Vec<&K> = vec![&p.r, &p.t, &p.s, &p.g, &p.o, &p.b];
    for i in 1..=nkeys {
        table.push(&p.a[i]);
    }
    let other_role = if site_role == "targets" { "snapshot" } else { "targets" };
    let mut roles: Vec<(&str, Vec<String>, u64)> = Vec::new();
    for (name, k) in [("root", root_holder), ("timestamp", &p.t), ("snapshot", &p.s), ("targets", &p.g)] {
        if name == site_role {
            roles.push((name, auth_ids(p, nkeys), thr));
        } else {
            let mut ids = vec![k.keyid.clone()];
            if name == other_role {
                ids.push(p.o.keyid.clone());
            }
            roles.push((name, ids, 1));
        }
    }
    root_signed(version, EXP, false, &table, &roles)
}

fn top_files(
    p: &Pool,
    list: &[Value],
    site: &str,
    targets_signed_v: Value,
    extra: Vec<(String, Value)>, // delegated role files (name.json -> envelope)
) -> Vec<(String, Vec<u8>)> {
    let tg_env = if site == "targets" {
        envelope_sigs(&targets_signed_v, sig_list(p, list, &targets_signed_v))
    } else {
        envelope(&targets_signed_v, &[&p.g])
    };
    let mut meta = Map::new();
    meta.insert("targets.json".into(), meta_entry(1, None, None));
    for (n, _) in &extra {
        meta.insert(n.clone(), meta_entry(1, None, None));
    }
    let sn = snapshot_signed(1, EXP, meta);
    let sn_env = if site == "snapshot" {
        envelope_sigs(&sn, sig_list(p, list, &sn))
    } else {
        envelope(&sn, &[&p.s])
    };
    let ts = timestamp_signed(1, EXP, meta_entry(1, None, None));
    let ts_env = if site == "timestamp" {
        envelope_sigs(&ts, sig_list(p, list, &ts))
    } else {
        envelope(&ts, &[&p.t])
    };
    let mut files = vec![
        ("metadata/timestamp.json".to_string(), to_bytes(&ts_env)),
        ("metadata/snapshot.json".to_string(), to_bytes(&sn_env)),
        ("metadata/targets.json".to_string(), to_bytes(&tg_env)),
    ];
    for (n, e) in extra {
        files.push((format!("metadata/{n}"), to_bytes(&e)));
    }
    files
}

fn build(p: &Pool, site: &str, nkeys: usize, thr: u64, list: &[Value]) -> Option<Built> {
    let plain_targets = targets_signed(1, EXP, Map::new(), None);
    match site {
        "root-self" => {
            let r = root_for(p, 1, "root", nkeys, thr, &p.r);
            let env = envelope_sigs(&r, sig_list(p, list, &r));
            Some(Built {
                shipped: to_bytes(&env),
                files: top_files(p, list, "", plain_targets, vec![]),
            })
        }
        "root-old" => {
            // shipped v1: root role = A-keys/thr, must self-verify => needs thr <= nkeys
            if thr as usize > nkeys {
                return None;
            }
            let r1 = root_for(p, 1, "root", nkeys, thr, &p.r);
            let signers: Vec<&K> = (1..=thr as usize).map(|i| &p.a[i]).collect();
            let e1 = envelope(&r1, &signers);
            // v2: root role = B/1, signed by B, plus the list (made by the OLD keys) under test
            let r2 = root_for(p, 2, "", nkeys, thr, &p.b);
            let mut sigs = vec![p.b.sig_entry(&canon(&r2))];
            sigs.extend(sig_list(p, list, &r2));
            let e2 = envelope_sigs(&r2, sigs);
            let mut files = top_files(p, list, "", plain_targets, vec![]);
            files.push(("metadata/2.root.json".into(), to_bytes(&e2)));
            Some(Built { shipped: to_bytes(&e1), files })
        }
        "root-new" => {
            let r1 = root_for(p, 1, "", nkeys, thr, &p.b);
            let e1 = envelope(&r1, &[&p.b]);
            let r2 = root_for(p, 2, "root", nkeys, thr, &p.r);
            let mut sigs = vec![p.b.sig_entry(&canon(&r2))];
            sigs.extend(sig_list(p, list, &r2));
            let e2 = envelope_sigs(&r2, sigs);
            let mut files = top_files(p, list, "", plain_targets, vec![]);
            files.push(("metadata/2.root.json".into(), to_bytes(&e2)));
            Some(Built { shipped: to_bytes(&e1), files })
        }
        "root-samekeys" => {
            // v1 and v2 list the SAME root keys in the same order; v1 has threshold 1, v2 raises it to thr: the
            // new root must meet its own threshold although the old root is satisfied by one signature
            if nkeys == 0 {
                return None;
            }
            let r1 = root_for(p, 1, "root", nkeys, 1, &p.r);
            let e1 = envelope(&r1, &[&p.a[1]]);
            let r2 = root_for(p, 2, "root", nkeys, thr, &p.r);
            let e2 = envelope_sigs(&r2, sig_list(p, list, &r2));
            let mut files = top_files(p, list, "", plain_targets, vec![]);
            files.push(("metadata/2.root.json".into(), to_bytes(&e2)));
            Some(Built { shipped: to_bytes(&e1), files })
        }
        "timestamp" | "snapshot" | "targets" => {
            let r = root_for(p, 1, site, nkeys, thr, &p.r);
            let env = envelope(&r, &[&p.r]);
            Some(Built {
                shipped: to_bytes(&env),
                files: top_files(p, list, site, plain_targets, vec![]),
            })
        }
        "deleg1" | "deleg2" => {
            let r = root_for(p, 1, "", nkeys, thr, &p.r);
            let env = envelope(&r, &[&p.r]);
            // the delegation under test: role "x" held by A-keys; role "o" held by O
            let mut table: Vec<&K> = vec![&p.o, &p.d];
            for i in 1..=nkeys {
                table.push(&p.a[i]);
            }
            let under_test = delegations_json(
                &table,
                vec![
                    delegated_role_json("x", &auth_ids(p, nkeys), thr, &["x/*"], false),
                    delegated_role_json("o", &[p.o.keyid.clone()], 1, &["o/*"], false),
                ],
            );
            let x = targets_signed(1, EXP, Map::new(), None);
            let x_env = envelope_sigs(&x, sig_list(p, list, &x));
            let o = targets_signed(1, EXP, Map::new(), None);
            let o_env = envelope(&o, &[&p.o]);
            if site == "deleg1" {
                let tg = targets_signed(1, EXP, Map::new(), Some(under_test));
                Some(Built {
                    shipped: to_bytes(&env),
                    files: top_files(
                        p,
                        list,
                        "",
                        tg,
                        vec![("x.json".into(), x_env), ("o.json".into(), o_env)],
                    ),
                })
            } else {
                let d = targets_signed(1, EXP, Map::new(), Some(under_test));
                let d_env = envelope(&d, &[&p.d]);
                let top = delegations_json(
                    &[&p.d],
                    vec![delegated_role_json("d", &[p.d.keyid.clone()], 1, &["*"], false)],
                );
                let tg = targets_signed(1, EXP, Map::new(), Some(top));
                Some(Built {
                    shipped: to_bytes(&env),
                    files: top_files(
                        p,
                        list,
                        "",
                        tg,
                        vec![
                            ("d.json".into(), d_env),
                            ("x.json".into(), x_env),
                            ("o.json".into(), o_env),
                        ],
                    ),
                })
            }
        }
        _ => panic!("site {site}"),
    }
}

/// API-level: parse the documents and call the public verify_role functions directly.
fn api_case(p: &Pool, site: &str, nkeys: usize, thr: u64, list: &[Value]) -> (bool, String) {
    use tough::schema::{Root, Signed, Targets, Timestamp};
    match site {
        "api-root" => {
            let r = root_for(p, 1, "timestamp", nkeys, thr, &p.r);
            let root: Signed<Root> = serde_json::from_value(envelope(&r, &[&p.r])).expect("root parses");
            let ts = timestamp_signed(1, EXP, meta_entry(1, None, None));
            let env = envelope_sigs(&ts, sig_list(p, list, &ts));
            let ts: Signed<Timestamp> = serde_json::from_value(env).expect("ts parses");
            match root.signed.verify_role(&ts) {
                Ok(()) => (true, "ok".into()),
                Err(e) => (false, format!("{e}")),
            }
        }
        "api-deleg" => {
            let mut table: Vec<&K> = vec![&p.o];
            for i in 1..=nkeys {
                table.push(&p.a[i]);
            }
            let dj = delegations_json(
                &table,
                vec![
                    delegated_role_json("x", &auth_ids(p, nkeys), thr, &["x/*"], false),
                    delegated_role_json("o", &[p.o.keyid.clone()], 1, &["o/*"], false),
                ],
            );
            let tg = targets_signed(1, EXP, Map::new(), Some(dj));
            let tg: Signed<Targets> = serde_json::from_value(envelope(&tg, &[&p.g])).expect("tg parses");
            let x = targets_signed(1, EXP, Map::new(), None);
            let x: Signed<Targets> =
                serde_json::from_value(envelope_sigs(&x, sig_list(p, list, &x))).expect("x parses");
            match tg.signed.delegations.as_ref().unwrap().verify_role(&x, "x") {
                Ok(()) => (true, "ok".into()),
                Err(e) => (false, format!("{e}")),
            }
        }
        _ => panic!("api site {site}"),
    }
}

pub fn run(args: &[String]) {
    let vectors = read_ndjson(&arg(args, "--vectors").expect("--vectors"));
    let sites: Vec<String> = arg_or(args, "--sites", "api-root,api-deleg")
        .split(',')
        .map(|s| s.to_string())
        .collect();
    let alg = arg_or(args, "--alg", "ed25519");
    let maxlen: usize = arg_or(args, "--maxlen", "99").parse().unwrap();
    let out = arg(args, "--out").expect("--out");
    let mut jobs = Vec::new();
    for (i, v) in vectors.iter().enumerate() {
        if v["list"].as_array().unwrap().len() > maxlen {
            continue;
        }
        for s in &sites {
            jobs.push((i, v.clone(), s.clone()));
        }
    }
    let alg2 = alg.clone();
    let pools: std::sync::Arc<Pool> = std::sync::Arc::new(pool(&alg2));
    let rows = par_map(jobs, threads(), move |_, (i, v, site)| {
        let p = pools.clone();
        let alg = alg.clone();
        async move {
            let nkeys = v["nkeys"].as_u64().unwrap() as usize;
            let thr = v["thr"].as_u64().unwrap();
            let list = v["list"].as_array().unwrap().clone();
            let expect = v["accept"].as_bool().unwrap();
            let (accepted, class, skipped) = if site.starts_with("api-") {
                match guard(async { api_case(&p, &site, nkeys, thr, &list) }).await {
                    Ok((a, c)) => (a, c, false),
                    Err(pn) => (false, format!("panic:{pn}"), false),
                }
            } else {
                match build(&p, &site, nkeys, thr, &list) {
                    None => (false, "skipped".to_string(), true),
                    Some(b) => {
                        let t = MemTransport::new();
                        for (n, d) in b.files {
                            t.put_body(&n, d);
                        }
                        match guard(load(&b.shipped, &t, None, None, true)).await {
                            Err(pn) => (false, format!("panic:{pn}"), false),
                            Ok(Ok(repo)) => {
                                // for the root-update sites acceptance means the new root was adopted
                                let adopted = repo.root().signed.version.get();
                                if site == "root-old" || site == "root-new" || site == "root-samekeys" {
                                    (adopted == 2, format!("ok:root{adopted}"), false)
                                } else {
                                    (true, "ok".to_string(), false)
                                }
                            }
                            Ok(Err(e)) => (false, classify(&e), false),
                        }
                    }
                }
            };
            json!({"case": i, "site": site, "alg": alg, "nkeys": nkeys, "thr": thr, "list": list,
                   "expect": expect, "accepted": accepted, "class": class, "skipped": skipped})
        }
    });
    write_ndjson(&out, &rows);
}
