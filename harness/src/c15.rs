//! C15: crash points and I/O failures on the datastore, driven by TufStore.tla.
//!
//! `vh c15 --cases F --shim S --out O [--ops OPSFILE]`: for each case (fault kind/position, follow-up
//! versions) run cycle 1 in-process, cycle 2 in a child process under the LD_PRELOAD shim, then the
//! follow-up cycle in-process, and report what the datastore holds and what the follow-up did.
//! `vh c15-child --dir D --versions ts,sn,tg`: one update cycle (the interrupted one).

use crate::base::*;
use crate::client::{concretise, project_store, Ctx};
use crate::mem::MemTransport;
use crate::util::*;
use serde_json::{json, Value};
use std::path::Path;

fn root_doc() -> Value {
    json!({"k":"root","v":1,"exp":9000,"len":1,"b":1,"signers":[9],"cons":false,"rk":[9],"rthr":1,
           "ts":[1],"tsthr":1,"sn":[3],"snthr":1,"tg":[4],"tgthr":1})
}
fn pin(v: u64) -> Value {
    json!({"v":v,"h":{"k":"none"},"len":0})
}

fn serve(ctx: &Ctx, t: &MemTransport, ts: u64, sn: u64, tg: u64) {
    t.clear();
    let tsd = json!({"k":"ts","v":ts,"exp":9000,"len":1,"b":1,"signers":[1],"pin":pin(sn)});
    let snd = json!({"k":"sn","v":sn,"exp":9000,"len":1,"b":1,"signers":[3],"pin":pin(tg)});
    let tgd = json!({"k":"tg","v":tg,"exp":9000,"len":1,"b":1,"signers":[4]});
    t.put_body("metadata/timestamp.json", concretise(ctx, &tsd).unwrap());
    t.put_body("metadata/snapshot.json", concretise(ctx, &snd).unwrap());
    t.put_body("metadata/targets.json", concretise(ctx, &tgd).unwrap());
}

async fn cycle(ctx: &Ctx, dir: &Path, ts: u64, sn: u64, tg: u64) -> Value {
    let t = MemTransport::new();
    serve(ctx, &t, ts, sn, tg);
    let shipped = concretise(ctx, &root_doc()).unwrap();
    match guard(load(&shipped, &t, Some(dir), None, true)).await {
        Err(p) => json!({"res": format!("panic:{p}"), "ts":0,"sn":0,"tg":0}),
        Ok(Err(e)) => json!({"res": classify(&e), "ts":0,"sn":0,"tg":0}),
        Ok(Ok(r)) => json!({"res":"ok","ts":r.timestamp().signed.version.get(),
            "sn":r.snapshot().signed.version.get(),"tg":r.targets().signed.version.get()}),
    }
}

pub fn child(args: &[String]) {
    let dir = arg(args, "--dir").expect("--dir");
    let vs: Vec<u64> = arg(args, "--versions").expect("--versions").split(',').map(|x| x.parse().unwrap()).collect();
    let ctx = Ctx::new(4096, vec![]);
    let rt = tokio::runtime::Builder::new_current_thread().enable_all().build().unwrap();
    let r = rt.block_on(cycle(&ctx, Path::new(&dir), vs[0], vs[1], vs[2]));
    println!("CHILD {}", r);
}

fn files_view(ctx: &Ctx, dir: &Path) -> Value {
    let p = project_store(ctx, dir);
    let ver = |d: &Value| -> i64 {
        if d["k"] == "none" || d["k"] == "garbage" { 0 } else { d["v"].as_i64().unwrap_or(0) }
    };
    let lkt = match std::fs::read(dir.join("latest_known_time.json")) {
        Err(_) => 0,
        Ok(b) => if serde_json::from_slice::<chrono::DateTime<chrono::Utc>>(&b).is_ok() { 1 } else { 0 },
    };
    let mut extra = Vec::new();
    if let Ok(rd) = std::fs::read_dir(dir) {
        for e in rd.flatten() {
            let n = e.file_name().to_string_lossy().to_string();
            if !["timestamp.json", "snapshot.json", "targets.json", "latest_known_time.json"].contains(&n.as_str()) {
                extra.push(n);
            }
        }
    }
    json!({"ts": ver(&p["ts"]), "sn": ver(&p["sn"]), "tg": ver(&p["tg"]), "lkt": lkt, "extra": extra.len()})
}

fn norm_log(path: &Path) -> Vec<Value> {
    let s = std::fs::read_to_string(path).unwrap_or_default();
    s.lines()
        .filter_map(|l| {
            let p: Vec<&str> = l.split(' ').collect();
            if p.len() < 3 { return None; }
            let name = |x: &str| -> String {
                match x {
                    "timestamp.json" => "ts".into(),
                    "snapshot.json" => "sn".into(),
                    "targets.json" => "tg".into(),
                    "latest_known_time.json" => "lkt".into(),
                    "-" => "-".into(),
                    _ => "tmp".into(),
                }
            };
            let f = if p[1] == "rename" { name(p.get(3).unwrap_or(&"-")) } else { name(p[2]) };
            Some(json!({"op": p[1], "f": f}))
        })
        .collect()
}

pub fn run(args: &[String]) {
    let cases = read_ndjson(&arg(args, "--cases").expect("--cases"));
    let shim = arg(args, "--shim").expect("--shim");
    let out = arg(args, "--out").expect("--out");
    let exe = std::env::current_exe().unwrap();
    let jobs: Vec<Value> = cases;
    let rows = par_map(jobs, threads(), move |i, c| {
        let shim = shim.clone();
        let exe = exe.clone();
        async move {
            let ctx = Ctx::new(4096, vec![]);
            let old = c["old"].as_u64().unwrap_or(2);
            let new = c["new"].as_u64().unwrap_or(3);
            let dir = scratch("c15");
            let d = dir.path().join("ds");
            std::fs::create_dir(&d).unwrap();
            // cycle 1
            let r1 = cycle(&ctx, &d, old, old, old).await;
            // cycle 2 in a child under the shim
            let log = dir.path().join("shim.log");
            let n = c["n"].as_u64().unwrap_or(0);
            let mode = c["mode"].as_str().unwrap_or("").to_string();
            let outp = std::process::Command::new(&exe)
                .args(["c15-child", "--dir", d.to_str().unwrap(), "--versions", &format!("{new},{new},{new}")])
                .env("LD_PRELOAD", &shim)
                .env("SHIM_PREFIX", d.to_str().unwrap())
                .env("SHIM_LOG", log.to_str().unwrap())
                .env("SHIM_N", n.to_string())
                .env("SHIM_MODE", &mode)
                .output()
                .expect("spawn child");
            let so = String::from_utf8_lossy(&outp.stdout).to_string();
            let child = if let Some(l) = so.lines().find(|l| l.starts_with("CHILD ")) {
                serde_json::from_str::<Value>(&l[6..]).unwrap_or(json!({"res":"unparsable"}))
            } else {
                use std::os::unix::process::ExitStatusExt;
                json!({"res": if outp.status.signal() == Some(9) { "killed".to_string() } else { format!("exit:{:?} {}", outp.status.code(), String::from_utf8_lossy(&outp.stderr).chars().take(300).collect::<String>()) }})
            };
            let oplog = norm_log(&log);
            let files = files_view(&ctx, &d);
            // follow-up
            let f = &c["follow"];
            let res = cycle(&ctx, &d, f["ts"].as_u64().unwrap(), f["sn"].as_u64().unwrap(), f["tg"].as_u64().unwrap()).await;
            json!({"case": i, "in": c, "cycle1": r1, "child": child, "files": files, "result": res,
                   "calls": oplog.len(), "oplog": if c["want_log"].as_bool().unwrap_or(false) { json!(oplog) } else { json!(null) }})
        }
    });
    write_ndjson(&out, &rows);
}
