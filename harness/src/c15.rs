//! C15: crash points and I/O failures on the datastore, driven by TufStore.tla.
//!
//! `vh c15 --cases F --shim S --out O [--ops OPSFILE]`: for each case (fault kind/position, follow-up
//! versions) run cycle 1 in-process, cycle 2 in a child process under the LD_PRELOAD shim, then the
//! follow-up cycle in-process, and report what the datastore holds and what the follow-up did.
//! `vh c15-child --dir D --versions ts,sn,tg`: one update cycle (the interrupted one).

use crate::base::*;
use crate::client::{concretise, project_store, Ctx};
use crate::mem::MemTransport;
use crate::util::*;
use serde_json::{json, Value};
use std::path::Path;

fn root_doc() -> Value {
    json!({"k":"root","v":1,"exp":9000,"len":1,"b":1,"signers":[9],"cons":false,"rk":[9],"rthr":1,
           "ts":[1],"tsthr":1,"sn":[3],"snthr":1,"tg":[4],"tgthr":1})
}
fn pin(v: u64) -> Value {
    json!({"v":v,"h":{"k":"none"},"len":0})
}

fn serve(ctx: &Ctx, t: &MemTransport, ts: u64, sn: u64, tg: u64) {
    t.clear();
    let tsd = json!({"k":"ts","v":ts,"exp":9000,"len":1,"b":1,"signers":[1],"pin":pin(sn)});
    let snd = json!({"k":"sn","v":sn,"exp":9000,"len":1,"b":1,"signers":[3],"pin":pin(tg)});
    let tgd = json!({"k":"tg","v":tg,"exp":9000,"len":1,"b":1,"signers":[4]});
    t.put_body("metadata/timestamp.json", concretise(ctx, &tsd).unwrap());
    t.put_body("metadata/snapshot.json", concretise(ctx, &snd).unwrap());
    t.put_body("metadata/targets.json", concretise(ctx, &tgd).unwrap());
}

async fn cycle(ctx: &Ctx, dir: &Path, ts: u64, sn: u64, tg: u64) -> Value {
    let t = MemTransport::new();
    serve(ctx, &t, ts, sn, tg);
    let shipped = concretise(ctx, &root_doc()).unwrap();
    match guard(load(&shipped, &t, Some(dir), None, true)).await {
        Err(p) => json!({"res": format!("panic:{p}"), "ts":0,"sn":0,"tg":0}),
        Ok(Err(e)) => json!({"res": classify(&e), "ts":0,"sn":0,"tg":0}),
        Ok(Ok(r)) => json!({"res":"ok","ts":r.timestamp().signed.version.get(),
            "sn":r.snapshot().signed.version.get(),"tg":r.targets().signed.version.get()}),
    }
}

pub fn child(args: &[String]) {
    let dir = arg(args, "--dir").expect("--dir");
    let vs: Vec<u64> = arg(args, "--versions").expect("--versions").split(',').map(|x| x.parse().unwrap()).collect();
    let ctx = Ctx::new(4096, vec![]);
    let rt = tokio::runtime::Builder::new_current_thread().enable_all().build().unwrap();
    let r = rt.block_on(cycle(&ctx, Path::new(&dir), vs[0], vs[1], vs[2]));
    println!("CHILD {}", r);
}

fn files_view(ctx: &Ctx, dir: &Path) -> Value {
    let p = project_store(ctx, dir);
    let ver = |d: &Value| -> i64 {
        if d["k"] == "none" || d["k"] == "garbage" { 0 } else { d["v"].as_i64().unwrap_or(0) }
    };
    let lkt = match std::fs::read(dir.join("latest_known_time.json")) {
        Err(_) => 0,
        Ok(b) => if serde_json::from_slice::<chrono::DateTime<chrono::Utc>>(&b).is_ok() { 1 } else { 0 },
    };
    let mut extra = Vec::new();
    if let Ok(rd) = std::fs::read_dir(dir) {
        for e in rd.flatten() {
            let n = e.file_name().to_string_lossy().to_string();
            if !["timestamp.json", "snapshot.json", "targets.json", "latest_known_time.json"].contains(&n.as_str()) {
                extra.push(n);
            }
        }
    }
    json!({"ts": ver(&p["ts"]), "sn": ver(&p["sn"]), "tg": ver(&p["tg"]), "lkt": lkt, "extra": extra.len()})
}

fn norm_log(path: &Path) -> Vec<Value> {
    let s = std::fs::read_to_string(path).unwrap_or_default();
    s.lines()
        .filter_map(|l| {
            let p: Vec<&str> = l.split(' ').collect();
            if p.len() < 3 { return None; }
            let name = |x: &str| -> String {
                match x {
                    "timestamp.json" => "ts".into(),
                    "snapshot.json" => "sn".into(),
                    "targets.json" => "tg".into(),
                    "latest_known_time.json" => "lkt".into(),
                    "-" => "-".into(),
                    _ => "tmp".into(),
                }
            };
            let f = if p[1] == "rename" { name(p.get(3).unwrap_or(&"-")) } else { name(p[2]) };
            Some(json!({"op": p[1], "f": f}))
        })
        .collect()
}

pub fn run(args: &[String]) {
    let cases = read_ndjson(&arg(args, "--cases").expect("--cases"));
    let shim = arg(args, "--shim").expect("--shim");
    let out = arg(args, "--out").expect("--out");
    let exe = std::env::current_exe().unwrap();
    let jobs: Vec<Value> = cases;
    let rows = par_map(jobs, threads(), move |i, c| {
        let shim = shim.clone();
        let exe = exe.clone();
        async move {
            let ctx = Ctx::new(4096, vec![]);
            let old = c["old"].as_u64().unwrap_or(2);
            let new = c["new"].as_u64().unwrap_or(3);
            let dir = scratch("c15");
            let d = dir.path().join("ds");
            std::fs::create_dir(&d).unwrap();
            // cycle 1
            let r1 = cycle(&ctx, &d, old, old, old).await;
            // cycle 2 in a child under the shim
            let log = dir.path().join("shim.log");
            let n = c["n"].as_u64().unwrap_or(0);
            let mode = c["mode"].as_str().unwrap_or("").to_string();
            let outp = std::process::Command::new(&exe)
                .args(["c15-child", "--dir", d.to_str().unwrap(), "--versions", &format!("{new},{new},{new}")])
                .env("LD_PRELOAD", &shim)
                .env("SHIM_PREFIX", d.to_str().unwrap())
                .env("SHIM_LOG", log.to_str().unwrap())
                .env("SHIM_N", n.to_string())
                .env("SHIM_MODE", &mode)
                .output()
                .expect("spawn child");
            let so = String::from_utf8_lossy(&outp.stdout).to_string();
            let child = if let Some(l) = so.lines().find(|l| l.starts_with("CHILD ")) {
                serde_json::from_str::<Value>(&l[6..]).unwrap_or(json!({"res":"unparsable"}))
            } else {
                use std::os::unix::process::ExitStatusExt;
                json!({"res": if outp.status.signal() == Some(9) { "killed".to_string() } else { format!("exit:{:?} {}", outp.status.code(), String::from_utf8_lossy(&outp.stderr).chars().take(300).collect::<String>()) }})
            };
            let oplog = norm_log(&log);
            let files = files_view(&ctx, &d);
            // follow-up
            let f = &c["follow"];
            let res = cycle(&ctx, &d, f["ts"].as_u64().unwrap(), f["sn"].as_u64().unwrap(), f["tg"].as_u64().unwrap()).await;
            json!({"case": i, "in": c, "cycle1": r1, "child": child, "files": files, "result": res,
                   "calls": oplog.len(), "oplog": if c["want_log"].as_bool().unwrap_or(false) { json!(oplog) } else { json!(null) }})
        }
    });
    write_ndjson(&out, &rows);
}

// ---------------------------------------------------------------------------------------------
// Concurrent cycles on one datastore directory (TufStoreConc.tla): two child processes under the
// shim's schedule gate, stepped in the order a TLC behaviour prescribes.

fn wait_for(path: &Path, child: &mut std::process::Child, secs: u64) -> &'static str {
    let t0 = std::time::Instant::now();
    loop {
        if path.exists() { return "at"; }
        if let Ok(Some(_)) = child.try_wait() {
            // the gate file may have been created just before the process ended
            return if path.exists() { "at" } else { "exited" };
        }
        if t0.elapsed().as_secs() >= secs { return "timeout"; }
        std::thread::sleep(std::time::Duration::from_micros(150));
    }
}

fn copy_dir(from: &Path, to: &Path) {
    std::fs::create_dir_all(to).unwrap();
    for e in std::fs::read_dir(from).unwrap().flatten() {
        if e.path().is_file() { let _ = std::fs::copy(e.path(), to.join(e.file_name())); }
    }
}

/// `vh c15conc --cases F --shim S --out O`; a case is {old, a, b, sched: ["A","B",...], follow: [v,...]}
pub fn run_conc(args: &[String]) {
    let cases = read_ndjson(&arg(args, "--cases").expect("--cases"));
    let shim = arg(args, "--shim").expect("--shim");
    let out = arg(args, "--out").expect("--out");
    let exe = std::env::current_exe().unwrap();
    let rows = par_map(cases, threads().min(8), move |i, c| {
        let shim = shim.clone();
        let exe = exe.clone();
        async move {
            let ctx = Ctx::new(4096, vec![]);
            let old = c["old"].as_u64().unwrap();
            let dir = scratch("c15conc");
            let d = dir.path().join("ds");
            let gate = dir.path().join("gate");
            std::fs::create_dir(&d).unwrap();
            std::fs::create_dir(&gate).unwrap();
            let r1 = cycle(&ctx, &d, old, old, old).await;
            let spawn = |tag: &str, v: u64| {
                std::process::Command::new(&exe)
                    .args(["c15-child", "--dir", d.to_str().unwrap(), "--versions", &format!("{v},{v},{v}")])
                    .env("LD_PRELOAD", &shim)
                    .env("SHIM_PREFIX", d.to_str().unwrap())
                    .env("SHIM_GATE_DIR", gate.to_str().unwrap())
                    .env("SHIM_TAG", tag)
                    .env_remove("SHIM_LOG").env_remove("SHIM_N").env_remove("SHIM_MODE")
                    .stdout(std::process::Stdio::piped())
                    .stderr(std::process::Stdio::piped())
                    .spawn()
                    .expect("spawn child")
            };
            let mut ch = [spawn("A", c["a"].as_u64().unwrap()), spawn("B", c["b"].as_u64().unwrap())];
            let mut j = [1u32, 1u32];          // next gate of each process
            let mut live = [true, true];
            let mut tool = String::new();
            let mut steps_done = Vec::new();
            for s in c["sched"].as_array().unwrap() {
                let tag = s.as_str().unwrap();
                let p = if tag == "A" { 0 } else { 1 };
                if !live[p] { steps_done.push(format!("{tag}:-")); continue; }
                // the process is (or will shortly be) stopped before its j-th critical call
                match wait_for(&gate.join(format!("{tag}.at.{}", j[p])), &mut ch[p], 30) {
                    "at" => {}
                    "exited" => { live[p] = false; steps_done.push(format!("{tag}:gone")); continue; }
                    _ => { tool = format!("timeout waiting for {tag} at gate {}", j[p]); break; }
                }
                std::fs::write(gate.join(format!("{tag}.go.{}", j[p])), b"").unwrap();
                j[p] += 1;
                // let it run up to its next critical call (or to its end) before anybody else moves
                match wait_for(&gate.join(format!("{tag}.at.{}", j[p])), &mut ch[p], 30) {
                    "at" => {}
                    "exited" => { live[p] = false; }
                    _ => { tool = format!("timeout waiting for {tag} to reach gate {}", j[p]); break; }
                }
                steps_done.push(format!("{tag}:{}", j[p] - 1));
            }
            // open every remaining gate and collect the results
            for (p, tag) in ["A", "B"].iter().enumerate() {
                for k in j[p]..=12 { let _ = std::fs::write(gate.join(format!("{tag}.go.{k}")), b""); }
            }
            let mut results = Vec::new();
            for c in ch {
                let o = c.wait_with_output().expect("child output");
                let so = String::from_utf8_lossy(&o.stdout).to_string();
                results.push(match so.lines().find(|l| l.starts_with("CHILD ")) {
                    Some(l) => serde_json::from_str::<Value>(&l[6..]).unwrap_or(json!({"res":"unparsable"})),
                    None => json!({"res": format!("exit:{:?} {}", o.status.code(), String::from_utf8_lossy(&o.stderr).chars().take(300).collect::<String>())}),
                });
            }
            let files = files_view(&ctx, &d);
            // the ordinary cycle that follows, once per candidate version, each on its own copy
            let mut follow = Vec::new();
            for v in c["follow"].as_array().unwrap() {
                let v = v.as_u64().unwrap();
                let cp = dir.path().join(format!("ds-follow-{v}"));
                copy_dir(&d, &cp);
                let r = cycle(&ctx, &cp, v, v, v).await;
                follow.push(json!({"v": v, "r": r["res"], "ts": r["ts"], "sn": r["sn"], "tg": r["tg"]}));
            }
            json!({"case": i, "in": c, "cycle1": r1, "A": results[0], "B": results[1], "files": files,
                   "follow": follow, "steps": steps_done, "tool": tool})
        }
    });
    write_ndjson(&out, &rows);
}
