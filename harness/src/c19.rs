//! C19: Repository::cache produces a faithful, loadable copy (Cache.tla).

use crate::base::*;
use crate::editor::serve_dir;
use crate::mem::MemTransport;
use crate::util::*;
use serde_json::{json, Map, Value};
use std::path::Path;

const EXP: i64 = BASE_TIME + 3650 * DAY;
const ODD_ROLE: &str = "role/\u{fc} x";
/// second-level role, delegated by ODD_ROLE
const SUB_ROLE: &str = "sub%2Frole";
const ALL: [&str; 4] = ["t1", "t2", "d/x", "d/e/y"];

fn concrete(n: &str) -> &'static str {
    match n {
        "t1" => "docs/read me.txt",
        "t2" => "bin/tool-\u{e9}.bin",
        "d/e/y" => "d/e/y.bin",
        _ => "d/x.bin",
    }
}
fn content(n: &str) -> Vec<u8> {
    format!("content of {n} {}", "z".repeat(n.len() * 300)).into_bytes()
}

fn listing(dir: &Path) -> Vec<String> {
    let mut out = Vec::new();
    fn walk(base: &Path, p: &Path, out: &mut Vec<String>) {
        if let Ok(rd) = std::fs::read_dir(p) {
            for e in rd.flatten() {
                let path = e.path();
                let rel = path.strip_prefix(base).unwrap().to_string_lossy().to_string();
                if path.is_dir() { out.push(format!("{rel}/")); walk(base, &path, out); } else { out.push(rel); }
            }
        }
    }
    walk(dir, dir, &mut out);
    out.sort();
    out
}

fn source(consistent: bool, rootv: u64, corrupt: &str) -> (MemTransport, Vec<u8>) {
    let (r, ts, sn, tg, d, ek) = (ed_key(100), ed_key(101), ed_key(102), ed_key(103), ed_key(110), ed_key(111));
    let t = MemTransport::new();
    let mut shipped = Vec::new();
    for v in 1..=rootv {
        let root = root_signed(v, EXP, consistent, &[&r, &ts, &sn, &tg], &[
            ("root", vec![r.keyid.clone()], 1), ("timestamp", vec![ts.keyid.clone()], 1),
            ("snapshot", vec![sn.keyid.clone()], 1), ("targets", vec![tg.keyid.clone()], 1)]);
        let b = to_bytes(&envelope(&root, &[&r]));
        if v == 1 { shipped = b.clone(); }
        t.put_body(&format!("metadata/{v}.root.json"), b);
    }
    let pre = |v: u64, n: &str| if consistent { format!("metadata/{v}.{n}") } else { format!("metadata/{n}") };
    let mut entries = Map::new();
    for n in ["t1", "t2"] {
        entries.insert(concrete(n).into(), target_entry(&content(n)));
    }
    let mut dentries = Map::new();
    dentries.insert(concrete("d/x").into(), target_entry(&content("d/x")));
    let dj = delegations_json(&[&d], vec![delegated_role_json(ODD_ROLE, &[d.keyid.clone()], 1, &["d/*"], false)]);
    let tg_bytes = to_bytes(&envelope(&targets_signed(3, EXP, entries, Some(dj)), &[&tg]));
    let mut eentries = Map::new();
    eentries.insert(concrete("d/e/y").into(), target_entry(&content("d/e/y")));
    let e_bytes = to_bytes(&envelope(&targets_signed(4, EXP, eentries, None), &[&ek]));
    let ddj = delegations_json(&[&ek], vec![delegated_role_json(SUB_ROLE, &[ek.keyid.clone()], 1, &["d/e/*"], false)]);
    let d_bytes = to_bytes(&envelope(&targets_signed(2, EXP, dentries, Some(ddj)), &[&d]));
    let mut meta = Map::new();
    meta.insert("targets.json".into(), meta_entry(3, Some(tg_bytes.len() as u64), Some(&sha256_hex(&tg_bytes))));
    meta.insert(format!("{ODD_ROLE}.json"), meta_entry(2, None, None));
    meta.insert(format!("{SUB_ROLE}.json"), meta_entry(4, Some(e_bytes.len() as u64), Some(&sha256_hex(&e_bytes))));
    t.put_body(&pre(4, "sub%252Frole.json"), e_bytes);
    let enc = "role%2F%C3%BC%20x.json";
    t.put_body(&pre(3, "targets.json"), tg_bytes);
    t.put_body(&pre(2, enc), d_bytes);
    let sn_bytes = to_bytes(&envelope(&snapshot_signed(5, EXP, meta), &[&sn]));
    t.put_body(&pre(5, "snapshot.json"), sn_bytes.clone());
    t.put_body("metadata/timestamp.json", to_bytes(&envelope(&timestamp_signed(7, EXP, meta_entry(5, Some(sn_bytes.len() as u64), Some(&sha256_hex(&sn_bytes)))), &[&ts])));
    for n in ALL {
        let c = content(n);
        let served = if corrupt == n { let mut x = c.clone(); let l = x.len(); x[l / 2] ^= 0x20; x } else { c.clone() };
        let fname = if consistent { format!("{}.{}", sha256_hex(&c), concrete(n)) } else { concrete(n).to_string() };
        if let Ok(u) = t.targets_url().join(&fname) {
            t.put_body(u.as_str(), served);
        }
    }
    (t, shipped)
}

async fn case(c: &Value, variant: usize) -> Value {
    let consistent = variant % 2 == 1;
    let rootv = c["rootv"].as_u64().unwrap();
    let chain = c["chain"].as_bool().unwrap();
    let corrupt = c["corrupt"].as_str().unwrap().to_string();
    let wanted: Vec<String> = c["wanted"].as_array().unwrap().iter().map(|x| x.as_str().unwrap().to_string()).collect();
    let all = c["subset"].as_array().unwrap().iter().any(|x| x == "all");
    let (t, shipped) = source(consistent, rootv, &corrupt);
    let repo = match load(&shipped, &t, None, None, true).await {
        Ok(r) => r,
        Err(e) => return json!({"error": format!("source does not load: {e}")}),
    };
    let sand = scratch("c19");
    let parent = sand.path().join("parent");
    std::fs::create_dir_all(&parent).unwrap();
    std::fs::write(parent.join("sibling"), b"x").unwrap();
    let (md, tg) = (parent.join("md"), parent.join("tg"));
    let names: Vec<String> = wanted.iter().map(|n| concrete(n).to_string()).collect();
    let res = match guard(repo.cache(&md, &tg, if all { None } else { Some(names.as_slice()) }, chain)).await {
        Err(p) => format!("panic:{p}"),
        Ok(Err(e)) => format!("err:{}", classify(&e)),
        Ok(Ok(())) => "ok".to_string(),
    };
    let list = listing(&parent);
    // what landed in the targets directory, and whether it is the verified content
    let mut stored = Map::new();
    for n in ALL {
        let c0 = content(n);
        let fname = if consistent { format!("{}.{}", sha256_hex(&c0), concrete(n)) } else { concrete(n).to_string() };
        let v = match std::fs::read(tg.join(&fname)) {
            Err(_) => "absent",
            Ok(b) if b == c0 => "verified",
            Ok(_) => "OTHER-CONTENT",
        };
        stored.insert(n.to_string(), json!(v));
    }
    let roots: Vec<u64> = (1..=rootv + 1).filter(|v| md.join(format!("{v}.root.json")).exists()).collect();
    let mut copy = Value::Null;
    if res == "ok" {
        let t2 = MemTransport::new();
        serve_dir(&t2, "metadata", &md);
        serve_dir(&t2, "targets", &tg);
        // a client holding the same (shipped) root; without the chain only the trusted root's own file is not there
        let start = if chain { shipped.clone() } else { std::fs::read(md.join(format!("{rootv}.root.json"))).unwrap_or_else(|_| {
            // the trusted root itself is what the holder of "the same root" has
            let st = t.state.lock().unwrap();
            match st.files.get(&format!("metadata/{rootv}.root.json")) { Some(crate::mem::Served::Body { data, .. }) => data.clone(), _ => shipped.clone() }
        }) };
        copy = match load(&start, &t2, None, None, true).await {
            Err(e) => json!({"loaded": false, "cls": format!("{}: {e}", classify(&e))}),
            Ok(r2) => {
                let same = r2.root().signed.version == repo.root().signed.version
                    && r2.timestamp().signed.version == repo.timestamp().signed.version
                    && r2.snapshot().signed.version == repo.snapshot().signed.version
                    && r2.targets().signed.version == repo.targets().signed.version
                    && r2.delegated_role(ODD_ROLE).and_then(|d| d.targets.as_ref()).map(|x| x.signed.version)
                        == repo.delegated_role(ODD_ROLE).and_then(|d| d.targets.as_ref()).map(|x| x.signed.version)
                    && r2.delegated_role(SUB_ROLE).and_then(|d| d.targets.as_ref()).map(|x| x.signed.version)
                        == repo.delegated_role(SUB_ROLE).and_then(|d| d.targets.as_ref()).map(|x| x.signed.version)
                    && repo.delegated_role(SUB_ROLE).and_then(|d| d.targets.as_ref()).is_some();
                let mut reads = Map::new();
                for n in &wanted {
                    use tough::IntoVec;
                    let tn = tough::TargetName::new(concrete(n)).unwrap();
                    let r = match r2.read_target(&tn).await {
                        Ok(Some(s)) => match s.into_vec().await { Ok(b) if b == content(n) => "identical".to_string(), Ok(_) => "DIFFERENT".to_string(), Err(e) => format!("err:{}", classify(&e)) },
                        Ok(None) => "none".into(),
                        Err(e) => format!("err:{}", classify(&e)),
                    };
                    reads.insert(n.clone(), json!(r));
                }
                // the same copy through file:// URLs
                let mut fs_reads = Map::new();
                let fs_loaded = match tough::RepositoryLoader::new(&start, url::Url::from_directory_path(&md).unwrap(), url::Url::from_directory_path(&tg).unwrap()).load().await {
                    Err(e) => format!("err:{}", classify(&e)),
                    Ok(r3) => {
                        for n in &wanted {
                            use tough::IntoVec;
                            let tn = tough::TargetName::new(concrete(n)).unwrap();
                            let r = match r3.read_target(&tn).await {
                                Ok(Some(s)) => match s.into_vec().await { Ok(b) if b == content(n) => "identical".to_string(), Ok(_) => "DIFFERENT".to_string(), Err(e) => format!("err:{}", classify(&e)) },
                                Ok(None) => "none".into(),
                                Err(e) => format!("err:{}", classify(&e)),
                            };
                            fs_reads.insert(n.clone(), json!(r));
                        }
                        "ok".to_string()
                    }
                };
                json!({"loaded": true, "same_versions": same, "reads": reads, "fs_loaded": fs_loaded, "fs_reads": fs_reads})
            }
        };
    }
    json!({"res": res, "list": list, "stored": stored, "roots": roots, "copy": copy})
}

pub fn run(args: &[String]) {
    let cases = read_ndjson(&arg(args, "--cases").expect("--cases"));
    let out = arg(args, "--out").expect("--out");
    let rows = par_map(cases, threads(), move |i, c| async move {
        let r = match guard(case(&c, i)).await {
            Ok(v) => v,
            Err(p) => json!({"error": format!("panic:{p}")}),
        };
        json!({"in": c, "variant": i, "obs": r})
    });
    write_ndjson(&out, &rows);
}
