//! C11: canonical JSON. Replays the objects enumerated by CJson.tla through the real
//! CanonicalFormatter (in the given insertion order) and runs a random driver against the
//! harness's independent canonicaliser.

use crate::base::canon;
use crate::util::*;
use olpc_cjson::CanonicalFormatter;
use rand::{rngs::StdRng, Rng, SeedableRng};
use serde::ser::{SerializeMap, SerializeSeq};
use serde::{Serialize, Serializer};
use serde_json::{json, Value};

/// A JSON value whose objects remember insertion order.
#[derive(Clone, Debug)]
pub enum OV {
    Null,
    Bool(bool),
    Int(i64),
    UInt(u64),
    Float(f64),
    Str(String),
    Arr(Vec<OV>),
    Obj(Vec<(String, OV)>),
}

impl Serialize for OV {
    fn serialize<S: Serializer>(&self, s: S) -> Result<S::Ok, S::Error> {
        match self {
            OV::Null => s.serialize_unit(),
            OV::Bool(b) => s.serialize_bool(*b),
            OV::Int(i) => s.serialize_i64(*i),
            OV::UInt(u) => s.serialize_u64(*u),
            OV::Float(f) => s.serialize_f64(*f),
            OV::Str(x) => s.serialize_str(x),
            OV::Arr(a) => {
                let mut q = s.serialize_seq(Some(a.len()))?;
                for x in a {
                    q.serialize_element(x)?;
                }
                q.end()
            }
            OV::Obj(m) => {
                let mut q = s.serialize_map(Some(m.len()))?;
                for (k, v) in m {
                    q.serialize_entry(k, v)?;
                }
                q.end()
            }
        }
    }
}

pub fn real_canon<T: Serialize>(v: &T) -> Result<Vec<u8>, String> {
    let mut buf = Vec::new();
    let mut ser = serde_json::Serializer::with_formatter(&mut buf, CanonicalFormatter::new());
    v.serialize(&mut ser).map_err(|e| e.to_string())?;
    Ok(buf)
}

fn sym_str(cps: &[u64]) -> String {
    cps.iter()
        .map(|c| if *c == 1000 { "e\u{301}".to_string() } else { char::from_u32(*c as u32).unwrap().to_string() })
        .collect()
}

/// the harness's own NFC: only the one composition the model knows
fn nfc1(s: &str) -> String {
    s.replace("e\u{301}", "\u{e9}")
}

fn to_value_nfc(v: &OV) -> Value {
    match v {
        OV::Null => Value::Null,
        OV::Bool(b) => json!(b),
        OV::Int(i) => json!(i),
        OV::UInt(u) => json!(u),
        OV::Float(f) => json!(f),
        OV::Str(s) => json!(nfc1(s)),
        OV::Arr(a) => Value::Array(a.iter().map(to_value_nfc).collect()),
        OV::Obj(m) => Value::Object(m.iter().map(|(k, v)| (nfc1(k), to_value_nfc(v))).collect()),
    }
}

fn has_float(v: &OV) -> bool {
    match v {
        OV::Float(_) => true,
        OV::Arr(a) => a.iter().any(has_float),
        OV::Obj(m) => m.iter().any(|(_, v)| has_float(v)),
        _ => false,
    }
}

const POOL: &[&str] = &[
    "\u{1}", "\u{8}", "\t", "\n", "\u{c}", "\r", "\u{1f}", " ", "!", "\"", "#", "/", "0", "A", "Z", "\\", "a", "z", "~", "\u{7f}",
    "\u{e9}", "e\u{301}", "\u{df}", "\u{4e2d}", "\u{1f600}", "e",
];

fn rand_str(r: &mut StdRng) -> String {
    let n = r.gen_range(0..5);
    (0..n).map(|_| POOL[r.gen_range(0..POOL.len())]).collect()
}

fn rand_val(r: &mut StdRng, depth: u32, floats: bool) -> OV {
    let k = if depth == 0 { r.gen_range(0..5) } else { r.gen_range(0..8) };
    match k {
        0 => OV::Null,
        1 => OV::Bool(r.gen()),
        2 => OV::Int(r.gen_range(-1000..1000) * if r.gen_bool(0.1) { i64::MAX / 1000 } else { 1 }),
        3 => OV::UInt(if r.gen_bool(0.2) { u64::MAX - r.gen_range(0..3) } else { r.gen_range(0..100) }),
        4 => {
            if floats && r.gen_bool(0.3) { OV::Float(r.gen_range(-10.0..10.0)) } else { OV::Str(rand_str(r)) }
        }
        5 => OV::Arr((0..r.gen_range(0..4)).map(|_| rand_val(r, depth - 1, floats)).collect()),
        _ => {
            let mut m: Vec<(String, OV)> = Vec::new();
            for _ in 0..r.gen_range(0..5) {
                let k = rand_str(r);
                if m.iter().all(|(x, _)| nfc1(x) != nfc1(&k)) {
                    m.push((k, rand_val(r, depth - 1, floats)));
                }
            }
            OV::Obj(m)
        }
    }
}

fn shuffle(v: &OV, r: &mut StdRng) -> OV {
    match v {
        OV::Arr(a) => OV::Arr(a.iter().map(|x| shuffle(x, r)).collect()),
        OV::Obj(m) => {
            let mut m2: Vec<(String, OV)> = m.iter().map(|(k, x)| (k.clone(), shuffle(x, r))).collect();
            for i in (1..m2.len()).rev() {
                let j = r.gen_range(0..=i);
                m2.swap(i, j);
            }
            OV::Obj(m2)
        }
        x => x.clone(),
    }
}

pub fn run(args: &[String]) {
    let out = arg(args, "--out").expect("--out");
    let mut rows: Vec<Value> = Vec::new();
    if let Some(cp) = arg(args, "--cases") {
        for c in read_ndjson(&cp) {
            let members: Vec<Vec<u64>> = c["members"].as_array().unwrap().iter()
                .map(|k| k.as_array().unwrap().iter().map(|x| x.as_u64().unwrap()).collect()).collect();
            let expect: String = c["canon"].as_array().unwrap().iter()
                .map(|x| char::from_u32(x.as_u64().unwrap() as u32).unwrap()).collect();
            let obj = OV::Obj(members.iter().enumerate().map(|(i, k)| (sym_str(k), OV::Int(i as i64 + 1))).collect());
            let got = real_canon(&obj);
            // the same object through serde_json::Value (its own map order)
            let via_value = serde_json::to_value(&obj).ok().and_then(|v| real_canon(&v).ok());
            let ok = got.as_ref().map(|g| g == expect.as_bytes()).unwrap_or(false);
            let ok2 = via_value.as_ref().map(|g| g == expect.as_bytes()).unwrap_or(false);
            rows.push(json!({"kind":"model","members":c["members"],"ok":ok && ok2,
                "expect": expect, "got": got.as_ref().map(|g| String::from_utf8_lossy(g).to_string()).unwrap_or_else(|e| format!("ERR {e}")),
                "via_value": via_value.map(|g| String::from_utf8_lossy(&g).to_string())}));
        }
    }
    let n: usize = arg_or(args, "--random", "0").parse().unwrap();
    let seed: u64 = arg_or(args, "--seed", "1").parse().unwrap();
    let mut r = StdRng::seed_from_u64(seed);
    for i in 0..n {
        let floats = i % 5 == 0;
        let v = rand_val(&mut r, 4, floats);
        let got = real_canon(&v);
        if has_float(&v) {
            rows.push(json!({"kind":"float","ok": got.is_err(), "value": format!("{v:?}").chars().take(300).collect::<String>()}));
            continue;
        }
        let oracle = canon(&to_value_nfc(&v));
        let v2 = shuffle(&v, &mut r);
        let got2 = real_canon(&v2);
        let ok = got.as_ref().map(|g| *g == oracle).unwrap_or(false) && got2.as_ref().map(|g| *g == oracle).unwrap_or(false);
        let nontrivial = matches!(&v, OV::Obj(m) if m.len() > 1) || matches!(&v, OV::Arr(_));
        rows.push(json!({"kind":"random","ok":ok,"nontrivial":nontrivial,
            "value": format!("{v:?}").chars().take(400).collect::<String>(),
            "expect": String::from_utf8_lossy(&oracle).chars().take(400).collect::<String>(),
            "got": got.map(|g| String::from_utf8_lossy(&g).chars().take(400).collect::<String>()).unwrap_or_else(|e| format!("ERR {e}"))}));
    }
    write_ndjson(&out, &rows);
}
