#![allow(dead_code)]
mod base;
mod c01;
mod c20;
mod c19;
mod editor;
mod c12;
mod c16;
mod c13;
mod c11;
mod deleg;
mod http;
mod lifecycle;
mod fixtures;
mod delegcli;
mod c06;
mod repo;
mod c15;
mod client;
mod mem;
mod util;

fn main() {
    let args: Vec<String> = std::env::args().collect();
    if args.len() < 2 {
        eprintln!("usage: vh <command> ...");
        std::process::exit(2);
    }
    let rest = &args[2..].to_vec();
    match args[1].as_str() {
        "c01" => c01::run(rest),
        "timekey" => { for alg in ["rsa","ed25519","ecdsa"] { let t=std::time::Instant::now(); let k=base::make_key(alg,0); let a=t.elapsed(); let t=std::time::Instant::now(); let _=tough::sign::parse_keypair(&k.private_file).is_ok(); let b=t.elapsed(); let t=std::time::Instant::now(); let s=k.sign(b"x"); let c=t.elapsed(); println!("{alg}: make {:?} parse_keypair {:?} sign {:?} {}", a,b,c,s.len()); } }
        "c20" => c20::run(rest),
        "c19" => c19::run(rest),
        "lifecycle" => lifecycle::run(rest),
        "fixtures" => fixtures::run(rest),
        "suite-traces" => fixtures::suite(rest),
        "delegcli" => delegcli::run(rest),
        "c10" => editor::run(rest),
        "c17" => editor::run_update(rest),
        "c10x" => editor::run_xparty(rest),
        "c12" => c12::run(rest),
        "c16" => c16::run(rest),
        "c13" => c13::run(rest),
        "c11" => c11::run(rest),
        "deleg" => deleg::run(rest),
        "c18" => http::run(rest),
        "urljoin" => { let b = url::Url::parse(&rest[0]).unwrap(); for a in &rest[1..] { println!("{:?} -> {:?}", a, b.join(a).map(|u| u.to_string())); } }
        "c06" => c06::run(rest),
        "c08-names" => c06::run_names(rest),
        "c15" => c15::run(rest),
        "c15-child" => c15::child(rest),
        "c15conc" => c15::run_conc(rest),
        "client" => client::run(rest),
        x => {
            eprintln!("unknown command {x}");
            std::process::exit(2);
        }
    }
}
