//! Independent building blocks: canonical JSON, hashing, keys, signing, document builders.
//! Nothing in here calls into tough or olpc-cjson: it is the oracle side of every comparison.

use aws_lc_rs::rand::SystemRandom;
use aws_lc_rs::signature::{
    EcdsaKeyPair, Ed25519KeyPair, KeyPair, RsaKeyPair, ECDSA_P256_SHA256_ASN1_SIGNING,
    RSA_PSS_SHA256,
};
use serde_json::{json, Map, Value};
use sha2::{Digest, Sha256};

pub fn sha256(b: &[u8]) -> Vec<u8> {
    let mut h = Sha256::new();
    h.update(b);
    h.finalize().to_vec()
}
pub fn sha256_hex(b: &[u8]) -> String {
    hex::encode(sha256(b))
}

/// OLPC canonical JSON of a value without floats. Members sorted by the code points of their
/// keys (UTF-8 byte order equals code point order), only `"` and `\` escaped, no whitespace.
/// No NFC normalisation is attempted here: callers only pass strings that are already NFC.
pub fn canon(v: &Value) -> Vec<u8> {
    let mut out = Vec::new();
    canon_into(v, &mut out);
    out
}
fn canon_str(s: &str, out: &mut Vec<u8>) {
    out.push(b'"');
    for b in s.bytes() {
        if b == b'"' || b == b'\\' {
            out.push(b'\\');
        }
        out.push(b);
    }
    out.push(b'"');
}
fn canon_into(v: &Value, out: &mut Vec<u8>) {
    match v {
        Value::Null => out.extend(b"null"),
        Value::Bool(true) => out.extend(b"true"),
        Value::Bool(false) => out.extend(b"false"),
        Value::Number(n) => {
            assert!(n.is_i64() || n.is_u64(), "floats have no canonical form");
            out.extend(n.to_string().as_bytes())
        }
        Value::String(s) => canon_str(s, out),
        Value::Array(a) => {
            out.push(b'[');
            for (i, x) in a.iter().enumerate() {
                if i > 0 {
                    out.push(b',');
                }
                canon_into(x, out);
            }
            out.push(b']');
        }
        Value::Object(m) => {
            let mut keys: Vec<&String> = m.keys().collect();
            keys.sort_by(|a, b| a.as_bytes().cmp(b.as_bytes()));
            out.push(b'{');
            for (i, k) in keys.iter().enumerate() {
                if i > 0 {
                    out.push(b',');
                }
                canon_str(k, out);
                out.push(b':');
                canon_into(&m[*k], out);
            }
            out.push(b'}');
        }
    }
}

pub enum Kp {
    Ed(Ed25519KeyPair),
    Ec(EcdsaKeyPair),
    Rsa(RsaKeyPair),
}

pub struct K {
    pub name: String,
    pub kp: Kp,
    /// the TUF key object as JSON
    pub public: Value,
    /// lower-case hex key id = sha256(canon(public))
    pub keyid: String,
    /// private key material in a form `tough::sign::parse_keypair` / tuftool accept
    pub private_file: Vec<u8>,
}

pub const ED_PKCS8_PREFIX: &str = "302e020100300506032b657004220420";

pub fn ed_pkcs8(seed: [u8; 32]) -> Vec<u8> {
    let mut v = hex::decode(ED_PKCS8_PREFIX).unwrap();
    v.extend_from_slice(&seed);
    v
}

/// Deterministic Ed25519 key number `n`.
pub fn ed_key(n: u64) -> K {
    let mut seed = [0u8; 32];
    let h = sha256(format!("vh-ed25519-key-{n}").as_bytes());
    seed.copy_from_slice(&h);
    let pk8 = ed_pkcs8(seed);
    let kp = Ed25519KeyPair::from_pkcs8_maybe_unchecked(&pk8).expect("ed25519 pkcs8");
    let public = json!({"keytype":"ed25519","scheme":"ed25519",
        "keyval":{"public": hex::encode(kp.public_key().as_ref())}});
    let keyid = sha256_hex(&canon(&public));
    K {
        name: format!("ed{n}"),
        kp: Kp::Ed(kp),
        public,
        keyid,
        private_file: pk8,
    }
}

fn spki_pem(tag_der: &[u8]) -> String {
    pem::encode_config(
        &pem::Pem::new("PUBLIC KEY", tag_der.to_vec()),
        pem::EncodeConfig::new().set_line_ending(pem::LineEnding::LF),
    )
}

/// DER SubjectPublicKeyInfo for an RSA public key given its PKCS#1 RSAPublicKey DER.
fn rsa_spki(pkcs1: &[u8]) -> Vec<u8> {
    // SEQUENCE { SEQUENCE { OID rsaEncryption, NULL }, BIT STRING { 0x00 || pkcs1 } }
    let alg = hex::decode("300d06092a864886f70d0101010500").unwrap();
    let mut bits = vec![0u8];
    bits.extend_from_slice(pkcs1);
    let mut bitstr = vec![0x03];
    bitstr.extend(der_len(bits.len()));
    bitstr.extend(bits);
    let mut body = alg;
    body.extend(bitstr);
    let mut out = vec![0x30];
    out.extend(der_len(body.len()));
    out.extend(body);
    out
}
fn ec_spki(point: &[u8]) -> Vec<u8> {
    let alg = hex::decode("301306072a8648ce3d020106082a8648ce3d030107").unwrap();
    let mut bits = vec![0u8];
    bits.extend_from_slice(point);
    let mut bitstr = vec![0x03];
    bitstr.extend(der_len(bits.len()));
    bitstr.extend(bits);
    let mut body = alg;
    body.extend(bitstr);
    let mut out = vec![0x30];
    out.extend(der_len(body.len()));
    out.extend(body);
    out
}
fn der_len(n: usize) -> Vec<u8> {
    if n < 0x80 {
        vec![n as u8]
    } else if n < 0x100 {
        vec![0x81, n as u8]
    } else {
        vec![0x82, (n >> 8) as u8, n as u8]
    }
}

/// RSA key from a PEM file ("PRIVATE KEY" pkcs8 or "RSA PRIVATE KEY").
pub fn rsa_key(name: &str, pem_bytes: &[u8]) -> K {
    let p = pem::parse(pem_bytes).expect("pem");
    let kp = if p.tag() == "PRIVATE KEY" {
        RsaKeyPair::from_pkcs8(p.contents()).expect("rsa pkcs8")
    } else {
        RsaKeyPair::from_der(p.contents()).expect("rsa der")
    };
    let spki = rsa_spki(kp.public_key().as_ref());
    // tough spells the PEM without a trailing newline (see Decoded<RsaPem>)
    let pem_s = spki_pem(&spki).trim_end().to_string();
    let public = json!({"keytype":"rsa","scheme":"rsassa-pss-sha256","keyval":{"public": pem_s}});
    let keyid = sha256_hex(&canon(&public));
    K {
        name: name.to_string(),
        kp: Kp::Rsa(kp),
        public,
        keyid,
        private_file: pem_bytes.to_vec(),
    }
}

/// ECDSA P-256 key from a PKCS#8 DER file.
pub fn ec_key(name: &str, pk8: &[u8]) -> K {
    let kp = EcdsaKeyPair::from_pkcs8(&ECDSA_P256_SHA256_ASN1_SIGNING, pk8).expect("ec pkcs8");
    let spki = ec_spki(kp.public_key().as_ref());
    let pem_s = spki_pem(&spki).trim_end().to_string();
    let public =
        json!({"keytype":"ecdsa","scheme":"ecdsa-sha2-nistp256","keyval":{"public": pem_s}});
    let keyid = sha256_hex(&canon(&public));
    K {
        name: name.to_string(),
        kp: Kp::Ec(kp),
        public,
        keyid,
        private_file: pk8.to_vec(),
    }
}

impl K {
    pub fn sign(&self, msg: &[u8]) -> Vec<u8> {
        let rng = SystemRandom::new();
        match &self.kp {
            Kp::Ed(k) => k.sign(msg).as_ref().to_vec(),
            Kp::Ec(k) => k.sign(&rng, msg).expect("ecdsa sign").as_ref().to_vec(),
            Kp::Rsa(k) => {
                let mut sig = vec![0u8; k.public_modulus_len()];
                k.sign(&RSA_PSS_SHA256, &rng, msg, &mut sig).expect("rsa sign");
                sig
            }
        }
    }
    pub fn sig_entry(&self, msg: &[u8]) -> Value {
        json!({"keyid": self.keyid, "sig": hex::encode(self.sign(msg))})
    }
}

/// A pool of keys of one algorithm family, indexed by small integers.
pub struct Keys {
    pub alg: String,
    cache: std::collections::BTreeMap<u64, K>,
}
impl Keys {
    pub fn new(alg: &str) -> Self {
        Keys {
            alg: alg.to_string(),
            cache: Default::default(),
        }
    }
    pub fn get(&mut self, n: u64) -> &K {
        let alg = self.alg.clone();
        self.cache.entry(n).or_insert_with(|| make_key(&alg, n))
    }
}

pub fn keys_dir() -> std::path::PathBuf {
    std::path::PathBuf::from(
        std::env::var("VH_KEYS").unwrap_or_else(|_| "/verif/harness/keys".to_string()),
    )
}

pub fn make_key(alg: &str, n: u64) -> K {
    match alg {
        "ed25519" => ed_key(n),
        "ecdsa" => {
            let p = keys_dir().join(format!("ec{}.pk8", n % 8));
            ec_key(&format!("ec{n}"), &std::fs::read(&p).unwrap_or_else(|_| panic!("{p:?}")))
        }
        "rsa" => {
            let p = keys_dir().join(format!("rsa{}.pem", n % 8));
            rsa_key(&format!("rsa{n}"), &std::fs::read(&p).unwrap_or_else(|_| panic!("{p:?}")))
        }
        _ => panic!("unknown alg {alg}"),
    }
}

// ---------------------------------------------------------------------------------------------
// Document builders (signed portions as serde_json::Value)

pub const BASE_TIME: i64 = 1_900_000_000; // 2030-03-17: far from "now", never a leap edge
pub const DAY: i64 = 86_400;

pub fn rfc3339(t: i64) -> String {
    chrono::DateTime::<chrono::Utc>::from_timestamp(t, 0)
        .unwrap()
        .format("%Y-%m-%dT%H:%M:%SZ")
        .to_string()
}

pub struct RoleSpec<'a> {
    pub keys: Vec<&'a K>,
    pub threshold: u64,
}

pub fn role_keys_json(keyids: &[String], threshold: u64) -> Value {
    json!({"keyids": keyids, "threshold": threshold})
}

/// root signed portion. `roles`: (role name, key ids in listed order, threshold); `table`: keys.
pub fn root_signed(
    version: u64,
    expires: i64,
    consistent: bool,
    table: &[&K],
    roles: &[(&str, Vec<String>, u64)],
) -> Value {
    let mut keys = Map::new();
    for k in table {
        keys.insert(k.keyid.clone(), k.public.clone());
    }
    let mut r = Map::new();
    for (name, ids, thr) in roles {
        r.insert(name.to_string(), role_keys_json(ids, *thr));
    }
    json!({"_type":"root","spec_version":"1.0.0","consistent_snapshot":consistent,
        "version":version,"expires":rfc3339(expires),"keys":keys,"roles":r})
}

pub fn meta_entry(version: u64, length: Option<u64>, sha: Option<&str>) -> Value {
    let mut m = Map::new();
    m.insert("version".into(), json!(version));
    if let Some(l) = length {
        m.insert("length".into(), json!(l));
    }
    if let Some(h) = sha {
        m.insert("hashes".into(), json!({"sha256": h}));
    }
    Value::Object(m)
}

pub fn timestamp_signed(version: u64, expires: i64, snapshot_meta: Value) -> Value {
    json!({"_type":"timestamp","spec_version":"1.0.0","version":version,
        "expires":rfc3339(expires),"meta":{"snapshot.json":snapshot_meta}})
}

pub fn snapshot_signed(version: u64, expires: i64, meta: Map<String, Value>) -> Value {
    json!({"_type":"snapshot","spec_version":"1.0.0","version":version,
        "expires":rfc3339(expires),"meta":meta})
}

pub fn target_entry(content: &[u8]) -> Value {
    json!({"length": content.len(), "hashes": {"sha256": sha256_hex(content)}})
}

pub fn targets_signed(
    version: u64,
    expires: i64,
    targets: Map<String, Value>,
    delegations: Option<Value>,
) -> Value {
    let mut v = json!({"_type":"targets","spec_version":"1.0.0","version":version,
        "expires":rfc3339(expires),"targets":targets});
    if let Some(d) = delegations {
        v.as_object_mut().unwrap().insert("delegations".into(), d);
    }
    v
}

pub fn delegated_role_json(
    name: &str,
    keyids: &[String],
    threshold: u64,
    paths: &[&str],
    terminating: bool,
) -> Value {
    json!({"name":name,"keyids":keyids,"threshold":threshold,"paths":paths,"terminating":terminating})
}

pub fn delegations_json(table: &[&K], roles: Vec<Value>) -> Value {
    let mut keys = Map::new();
    for k in table {
        keys.insert(k.keyid.clone(), k.public.clone());
    }
    json!({"keys":keys,"roles":roles})
}

/// Envelope: sign the canonical form of `signed` with each signer.
pub fn envelope(signed: &Value, signers: &[&K]) -> Value {
    let msg = canon(signed);
    let sigs: Vec<Value> = signers.iter().map(|k| k.sig_entry(&msg)).collect();
    json!({"signed": signed, "signatures": sigs})
}
pub fn envelope_sigs(signed: &Value, sigs: Vec<Value>) -> Value {
    json!({"signed": signed, "signatures": sigs})
}

pub fn to_bytes(v: &Value) -> Vec<u8> {
    serde_json::to_vec(v).unwrap()
}
/// A second byte-level spelling of the same JSON value (pretty printed): same signed content,
/// different file digest.
pub fn to_bytes_alt(v: &Value) -> Vec<u8> {
    serde_json::to_vec_pretty(v).unwrap()
}

/// A third spelling: every character of every string (member names too) written as a \uXXXX
/// escape.  Any JSON parser reads the same value; a parser that can only borrow strings from its
/// input cannot.
pub fn to_bytes_escaped(v: &Value) -> Vec<u8> {
    fn s(out: &mut String, x: &str) {
        out.push('"');
        for u in x.encode_utf16() {
            out.push_str(&format!("\\u{u:04x}"));
        }
        out.push('"');
    }
    fn w(out: &mut String, v: &Value) {
        match v {
            Value::String(x) => s(out, x),
            Value::Array(a) => {
                out.push('[');
                for (i, e) in a.iter().enumerate() {
                    if i > 0 { out.push(','); }
                    w(out, e);
                }
                out.push(']');
            }
            Value::Object(m) => {
                out.push('{');
                for (i, (k, e)) in m.iter().enumerate() {
                    if i > 0 { out.push(','); }
                    s(out, k);
                    out.push(':');
                    w(out, e);
                }
                out.push('}');
            }
            other => out.push_str(&other.to_string()),
        }
    }
    let mut out = String::new();
    w(&mut out, v);
    out.into_bytes()
}

/// Classify a tough error by its variant name (the first identifier of the Debug form) and, for
/// transport errors, by the recognisable cause.
pub fn classify(e: &tough::error::Error) -> String {
    let d = format!("{e:?}");
    let name: String = d
        .chars()
        .take_while(|c| c.is_alphanumeric() || *c == '_')
        .collect();
    let disp = format!("{e}");
    let role = |s: &str| -> String {
        for r in ["root", "timestamp", "snapshot", "targets"] {
            if s.starts_with(r) || s.contains(&format!("verify {r} ")) || s.contains(&format!("parse {r} ")) || s.contains(&format!("of {r} metadata")) {
                return r.to_string();
            }
        }
        String::new()
    };
    match name.as_str() {
        "Transport" => {
            if disp.contains("Maximum size") {
                "MaxSize".into()
            } else if disp.contains("Hash mismatch") {
                "HashMismatch".into()
            } else if disp.contains("file not found") {
                "NotFound".into()
            } else {
                "Transport".into()
            }
        }
        "ExpiredMetadata" => format!("Expired:{}", role(&disp)),
        "VerifyMetadata" => format!("Verify:{}", role(&disp)),
        "OlderMetadata" => format!("Older:{}", role(&disp)),
        "VersionMismatch" => format!("VersionMismatch:{}", role(&disp)),
        "ParseMetadata" => format!("Parse:{}", role(&disp)),
        other => other.to_string(),
    }
}
