//! C20: `tuftool root` subcommand sequences (RootCli.tla) run through the tuftool binary built
//! from the working tree; after every invocation the file is inspected independently.

use crate::base::*;
use crate::util::*;
use aws_lc_rs::signature::{KeyPair, UnparsedPublicKey, ECDSA_P256_SHA256_ASN1, ED25519, RSA_PSS_2048_8192_SHA256};
use serde_json::{json, Map, Value};
use std::collections::HashMap;
use std::path::{Path, PathBuf};
use std::process::Command;

struct KeyInfo {
    n: u64,
    k: K,
    file: PathBuf,
    lib_id: String,
}

fn verify(k: &K, msg: &[u8], sig: &[u8]) -> bool {
    match &k.kp {
        Kp::Ed(kp) => UnparsedPublicKey::new(&ED25519, kp.public_key().as_ref()).verify(msg, sig).is_ok(),
        Kp::Ec(kp) => UnparsedPublicKey::new(&ECDSA_P256_SHA256_ASN1, kp.public_key().as_ref()).verify(msg, sig).is_ok(),
        Kp::Rsa(kp) => UnparsedPublicKey::new(&RSA_PSS_2048_8192_SHA256, kp.public_key().as_ref()).verify(msg, sig).is_ok(),
    }
}

fn keyset(dir: &Path) -> Vec<KeyInfo> {
    use tough::sign::Sign;
    let mut out = Vec::new();
    for (n, alg, idx) in [(1u64, "rsa", 0u64), (2, "ed25519", 400), (3, "ecdsa", 0)] {
        let k = make_key(alg, idx);
        let file = dir.join(format!("key{n}"));
        std::fs::write(&file, &k.private_file).unwrap();
        let lib_id = hex::encode(tough::sign::parse_keypair(&k.private_file).unwrap().tuf_key().key_id().unwrap());
        out.push(KeyInfo { n, k, file, lib_id });
    }
    out
}

/// Independent inspection of a root.json file.
fn inspect(path: &Path, keys: &[KeyInfo]) -> Value {
    let bytes = match std::fs::read(path) {
        Ok(b) => b,
        Err(_) => return json!({"exists": false}),
    };
    let v: Value = match serde_json::from_slice(&bytes) {
        Ok(v) => v,
        Err(e) => return json!({"exists": true, "json": false, "err": e.to_string()}),
    };
    let lib_parse = serde_json::from_slice::<tough::schema::Signed<tough::schema::Root>>(&bytes).is_ok();
    let signed = &v["signed"];
    let id2n: HashMap<String, u64> = keys.iter().map(|k| (k.lib_id.clone(), k.n)).collect();
    let mut keyids_correct = true;
    let mut table: Vec<u64> = Vec::new();
    if let Some(m) = signed["keys"].as_object() {
        for (id, key) in m {
            if sha256_hex(&canon(key)) != id.to_lowercase() {
                keyids_correct = false;
            }
            table.push(*id2n.get(&id.to_lowercase()).unwrap_or(&0));
        }
    }
    table.sort();
    let mut rolekeys = Map::new();
    let mut thr = Map::new();
    if let Some(m) = signed["roles"].as_object() {
        for (r, rk) in m {
            let mut ks: Vec<u64> = rk["keyids"].as_array().map(|a| a.iter().map(|x| *id2n.get(&x.as_str().unwrap_or("").to_lowercase()).unwrap_or(&0)).collect()).unwrap_or_default();
            ks.sort();
            rolekeys.insert(r.clone(), json!(ks));
            thr.insert(r.clone(), rk["threshold"].clone());
        }
    }
    let msg = canon(signed);
    let mut sigs: Vec<u64> = Vec::new();
    let mut valid: Vec<u64> = Vec::new();
    if let Some(a) = v["signatures"].as_array() {
        for s in a {
            let n = *id2n.get(&s["keyid"].as_str().unwrap_or("").to_lowercase()).unwrap_or(&0);
            sigs.push(n);
            if let (Some(ki), Ok(sig)) = (keys.iter().find(|k| k.n == n), hex::decode(s["sig"].as_str().unwrap_or(""))) {
                if verify(&ki.k, &msg, &sig) && !valid.contains(&n) {
                    valid.push(n);
                }
            }
        }
    }
    sigs.sort();
    valid.sort();
    json!({"exists": true, "json": true, "lib_parse": lib_parse, "keyids_correct": keyids_correct,
           "version": signed["version"], "keys": table, "rolekeys": rolekeys, "thr": thr,
           "sigs": sigs, "valid_sigs": valid, "sha": sha256_hex(&bytes)})
}

fn run_seq(tuftool: &str, c: &Value, setup: &[u8]) -> Value {
    let dir = scratch("c20");
    let keys = keyset(dir.path());
    let root = dir.path().join("root.json");
    let rs = root.to_str().unwrap().to_string();
    let tt = |args: &[&str]| -> (bool, String) {
        let o = Command::new(tuftool).arg("root").args(args).output().expect("run tuftool");
        (o.status.success(), format!("{}{}", String::from_utf8_lossy(&o.stdout), String::from_utf8_lossy(&o.stderr)).chars().take(300).collect())
    };
    // prefix: init, thresholds 1 (done once per run by tuftool itself, then copied)
    let setup_ok = !setup.is_empty();
    std::fs::write(&root, setup).unwrap();
    // the other root for --cross-sign: root keys 1 and 2, threshold 1, built independently and
    // signed by key 2 (RootCli.tla: CrossRootKeys, CrossSigs)
    let (k1, k2) = (keys.iter().find(|k| k.n == 1).unwrap(), keys.iter().find(|k| k.n == 2).unwrap());
    let other = dir.path().join("other.json");
    {
        let mut km = Map::new();
        for k in [k1, k2] {
            let mut pubk = k.k.public.clone();
            // use the library's spelling of the key so that key ids agree
            if let Ok(kp) = tough::sign::parse_keypair(&k.k.private_file) {
                use tough::sign::Sign;
                pubk = serde_json::to_value(kp.tuf_key()).unwrap();
            }
            km.insert(k.lib_id.clone(), pubk);
        }
        let ids = vec![k1.lib_id.clone(), k2.lib_id.clone()];
        let one = vec![k1.lib_id.clone()];
        let signed = json!({"_type":"root","spec_version":"1.0.0","consistent_snapshot":true,"version":1,
            "expires": rfc3339(BASE_TIME), "keys": km,
            "roles": {"root": role_keys_json(&ids, 1), "timestamp": role_keys_json(&one, 1),
                      "snapshot": role_keys_json(&one, 1), "targets": role_keys_json(&one, 1)}});
        let msg = canon(&signed);
        let env = json!({"signed": signed, "signatures": [{"keyid": k2.lib_id, "sig": hex::encode(k2.k.sign(&msg))}]});
        std::fs::write(&other, to_bytes(&env)).unwrap();
    }
    let key_arg = |n: u64| keys.iter().find(|k| k.n == n).unwrap().file.to_str().unwrap().to_string();
    let key_id = |n: u64| keys.iter().find(|k| k.n == n).unwrap().lib_id.clone();
    let mut steps = vec![json!({"cmd": "setup", "ok": setup_ok, "after": inspect(&root, &keys)})];
    for cmd in c["cmds"].as_array().unwrap() {
        let before = std::fs::read(&root).unwrap_or_default();
        let name = cmd["cmd"].as_str().unwrap();
        let mut args: Vec<String> = Vec::new();
        match name {
            "add-key" => {
                args.extend(["add-key".into(), rs.clone(), "-k".into(), key_arg(cmd["key"].as_u64().unwrap())]);
                for r in cmd["roles"].as_array().unwrap() {
                    args.extend(["-r".into(), r.as_str().unwrap().to_string()]);
                }
            }
            "remove-key" => {
                args.extend(["remove-key".into(), rs.clone(), key_id(cmd["key"].as_u64().unwrap())]);
                if cmd["role"] != "all" {
                    args.push(cmd["role"].as_str().unwrap().to_string());
                }
            }
            "set-threshold" => args.extend(["set-threshold".into(), rs.clone(), cmd["role"].as_str().unwrap().to_string(), cmd["n"].to_string()]),
            "bump-version" => args.extend(["bump-version".into(), rs.clone()]),
            "set-version" => args.extend(["set-version".into(), rs.clone(), if cmd["n"] == 7 { "4294967296".to_string() } else { cmd["n"].to_string() }]),
            "expire" => args.extend(["expire".into(), rs.clone(), "2031-01-01T00:00:00Z".into()]),
            "sign" => {
                args.extend(["sign".into(), rs.clone()]);
                for k in cmd["keys"].as_array().unwrap() {
                    args.extend(["-k".into(), key_arg(k.as_u64().unwrap())]);
                }
                if cmd["cross"].as_bool().unwrap() {
                    args.extend(["--cross-sign".into(), other.to_str().unwrap().to_string()]);
                }
                if cmd["ignore"].as_bool().unwrap() {
                    args.push("-i".into());
                }
            }
            x => panic!("cmd {x}"),
        }
        let a: Vec<&str> = args.iter().map(|s| s.as_str()).collect();
        let (ok, outp) = tt(&a);
        let after_bytes = std::fs::read(&root).unwrap_or_default();
        steps.push(json!({"cmd": cmd, "ok": ok, "out": outp, "unchanged": before == after_bytes, "after": inspect(&root, &keys)}));
    }
    json!({"in": c, "steps": steps})
}

pub fn run(args: &[String]) {
    let cases = read_ndjson(&arg(args, "--cases").expect("--cases"));
    let out = arg(args, "--out").expect("--out");
    let tuftool = arg(args, "--tuftool").expect("--tuftool");
    // the file after `init` and `set-threshold <role> 1` for the four roles
    let sdir = scratch("c20setup");
    let sroot = sdir.path().join("root.json");
    let mut ok = Command::new(&tuftool).args(["root", "init", sroot.to_str().unwrap()]).status().map(|s| s.success()).unwrap_or(false);
    for r in ["root", "timestamp", "snapshot", "targets"] {
        ok &= Command::new(&tuftool).args(["root", "set-threshold", sroot.to_str().unwrap(), r, "1"]).status().map(|s| s.success()).unwrap_or(false);
    }
    let setup: std::sync::Arc<Vec<u8>> = std::sync::Arc::new(if ok { std::fs::read(&sroot).unwrap_or_default() } else { Vec::new() });
    // process creation does not scale here (about 35 tuftool invocations per second whatever the
    // parallelism), so few threads
    let rows = par_map(cases, threads().min(4), move |_, c| {
        let tuftool = tuftool.clone();
        let setup = setup.clone();
        async move { run_seq(&tuftool, &c, &setup) }
    });
    write_ndjson(&out, &rows);
}
