//! C16: role names never steer file access outside the metadata directories, nor collide.
//! Every role name enumerated by Names.tla (role mode) goes through: the public filename(), a full
//! load() (requested URLs, datastore entries), cache() and the editor's write().

use crate::base::*;
use crate::mem::MemTransport;
use crate::util::*;
use serde_json::{json, Map, Value};
use std::collections::BTreeSet;
use std::path::Path;

const EXP: i64 = BASE_TIME + 3650 * DAY;

fn subst(s: &str) -> String {
    s.replace('^', "\u{1}").replace('`', "\t").replace('@', "\u{e9}")
}

/// the harness's own spelling of the file-name encoding: UTF-8 bytes, everything but
/// [A-Za-z0-9_.~-] as %XX with upper-case hex
fn enc(name: &str) -> String {
    let mut out = String::new();
    for b in name.bytes() {
        if b.is_ascii_alphanumeric() || matches!(b, b'_' | b'.' | b'~' | b'-') {
            out.push(b as char);
        } else {
            out.push_str(&format!("%{b:02X}"));
        }
    }
    out
}
fn file_of(c: &Value, name: &str) -> String {
    c["file"].as_str().map(|x| x.to_string()).unwrap_or_else(|| format!("{}.json", enc(name)))
}

fn listing(dir: &Path) -> Vec<String> {
    // every entry below dir, relative, directories marked with a trailing '/'
    let mut out = Vec::new();
    fn walk(base: &Path, p: &Path, out: &mut Vec<String>) {
        if let Ok(rd) = std::fs::read_dir(p) {
            for e in rd.flatten() {
                let path = e.path();
                let rel = path.strip_prefix(base).unwrap().to_string_lossy().to_string();
                if e.file_type().map(|t| t.is_dir()).unwrap_or(false) {
                    out.push(format!("{rel}/"));
                    walk(base, &path, out);
                } else {
                    out.push(rel);
                }
            }
        }
    }
    walk(dir, dir, &mut out);
    out.sort();
    out
}

fn build(name: &str, consistent: bool, file: &str) -> (MemTransport, Vec<u8>) {
    let (r, ts, sn, tg, d) = (ed_key(100), ed_key(101), ed_key(102), ed_key(103), ed_key(104));
    let root = root_signed(1, EXP, consistent, &[&r, &ts, &sn, &tg], &[
        ("root", vec![r.keyid.clone()], 1), ("timestamp", vec![ts.keyid.clone()], 1),
        ("snapshot", vec![sn.keyid.clone()], 1), ("targets", vec![tg.keyid.clone()], 1)]);
    let shipped = to_bytes(&envelope(&root, &[&r]));
    let t = MemTransport::new();
    let pre = |n: &str| if consistent { format!("metadata/1.{n}") } else { format!("metadata/{n}") };
    let dj = delegations_json(&[&d], vec![delegated_role_json(name, &[d.keyid.clone()], 1, &["*"], false)]);
    let tg_bytes = to_bytes(&envelope(&targets_signed(1, EXP, Map::new(), Some(dj)), &[&tg]));
    let d_bytes = to_bytes(&envelope(&targets_signed(1, EXP, Map::new(), None), &[&d]));
    let mut meta = Map::new();
    meta.insert("targets.json".into(), meta_entry(1, None, None));
    meta.insert(format!("{name}.json"), meta_entry(1, None, None));
    // the delegated role is served under exactly the expected file name, nowhere else
    t.put_body(&pre(file), d_bytes);
    t.put_body(&pre("targets.json"), tg_bytes);
    let sn_bytes = to_bytes(&envelope(&snapshot_signed(1, EXP, meta), &[&sn]));
    t.put_body(&pre("snapshot.json"), sn_bytes);
    t.put_body("metadata/timestamp.json", to_bytes(&envelope(&timestamp_signed(1, EXP, meta_entry(1, None, None)), &[&ts])));
    t.put_body("metadata/1.root.json", shipped.clone());
    (t, shipped)
}

async fn full(c: &Value, consistent: bool) -> Value {
    let name = subst(c["name"].as_str().unwrap());
    let file = file_of(c, &name);
    let expect_file = if consistent { format!("1.{file}") } else { file.clone() };
    let (t, shipped) = build(&name, consistent, &file);
    let sand = scratch("c16");
    let ds_parent = sand.path().join("dsparent");
    let ds = ds_parent.join("datastore");
    std::fs::create_dir_all(&ds).unwrap();
    std::fs::write(ds_parent.join("sibling"), b"x").unwrap();
    let r = guard(load(&shipped, &t, Some(&ds), None, true)).await;
    let log = t.take_log();
    let urls: Vec<String> = log.iter().map(|l| l.url.clone()).collect();
    let ds_list = listing(&ds_parent);
    let (loaded, cls, repo) = match r {
        Err(p) => (false, format!("panic:{p}"), None),
        Ok(Err(e)) => (false, format!("{}: {}", classify(&e), format!("{e}").chars().take(150).collect::<String>()), None),
        Ok(Ok(rp)) => (true, "ok".to_string(), Some(rp)),
    };
    // cache
    let cache_parent = sand.path().join("cacheparent");
    let md = cache_parent.join("md");
    let tgd = cache_parent.join("tg");
    std::fs::create_dir_all(&cache_parent).unwrap();
    let mut cache_res = "skipped".to_string();
    if let Some(rp) = &repo {
        cache_res = match guard(rp.cache(&md, &tgd, None::<&[&str]>, true)).await {
            Err(p) => format!("panic:{p}"),
            Ok(Err(e)) => format!("err:{}", classify(&e)),
            Ok(Ok(())) => "ok".to_string(),
        };
    }
    let cache_list = listing(&cache_parent);
    let cache_urls: Vec<String> = t.take_log().iter().map(|l| l.url.clone()).collect();
    json!({"consistent": consistent, "loaded": loaded, "cls": cls, "urls": urls, "ds": ds_list,
           "cache": cache_res, "cache_list": cache_list, "cache_urls": cache_urls, "expect_file": expect_file})
}

async fn editor_write(c: &Value, consistent: bool) -> Value {
    use tough::editor::RepositoryEditor;
    use tough::key_source::{KeySource, LocalKeySource};
    use tough::schema::{PathPattern, PathSet};
    let name = subst(c["name"].as_str().unwrap());
    let sand = scratch("c16e");
    let keys: Vec<K> = vec![ed_key(100), ed_key(101), ed_key(102), ed_key(103), ed_key(104)];
    let mut paths = Vec::new();
    for (i, k) in keys.iter().enumerate() {
        let p = sand.path().join(format!("key{i}"));
        std::fs::write(&p, &k.private_file).unwrap();
        paths.push(p);
    }
    let root = root_signed(1, EXP, consistent, &[&keys[0], &keys[1], &keys[2], &keys[3]], &[
        ("root", vec![keys[0].keyid.clone()], 1), ("timestamp", vec![keys[1].keyid.clone()], 1),
        ("snapshot", vec![keys[2].keyid.clone()], 1), ("targets", vec![keys[3].keyid.clone()], 1)]);
    let root_path = sand.path().join("root.json");
    std::fs::write(&root_path, to_bytes(&envelope(&root, &[&keys[0]]))).unwrap();
    let exp = chrono::DateTime::<chrono::Utc>::from_timestamp(EXP, 0).unwrap();
    let one = std::num::NonZeroU64::new(1).unwrap();
    let ks = |i: usize| -> Box<dyn KeySource> { Box::new(LocalKeySource { path: paths[i].clone() }) };
    let outparent = sand.path().join("outparent");
    let out = outparent.join("metadata");
    std::fs::create_dir_all(&outparent).unwrap();
    let r = guard(async {
        let mut ed = RepositoryEditor::new(&root_path).await.map_err(|e| format!("new: {e}"))?;
        ed.targets_version(one).map_err(|e| e.to_string())?.targets_expires(exp).map_err(|e| e.to_string())?;
        ed.snapshot_version(one).snapshot_expires(exp).timestamp_version(one).timestamp_expires(exp);
        ed.delegate_role(&name, &[ks(4)], PathSet::Paths(vec![PathPattern::new("*").unwrap()]), one, exp, one)
            .await.map_err(|e| format!("delegate_role: {e}"))?;
        let signed = ed.sign(&[ks(0), ks(1), ks(2), ks(3), ks(4)]).await.map_err(|e| format!("sign: {e}"))?;
        signed.write(&out).await.map_err(|e| format!("write: {e}"))?;
        Ok::<(), String>(())
    }).await;
    let res = match r { Err(p) => format!("panic:{p}"), Ok(Err(e)) => format!("err:{e}"), Ok(Ok(())) => "ok".to_string() };
    json!({"consistent": consistent, "res": res, "list": listing(&outparent)})
}

pub fn run(args: &[String]) {
    let cases = read_ndjson(&arg(args, "--cases").expect("--cases"));
    let out = arg(args, "--out").expect("--out");
    let deep: usize = arg_or(args, "--deep-maxlen", "2").parse().unwrap();
    let rows = par_map(cases, threads(), move |_, c| async move {
        use tough::schema::{DelegatedTargets, Role, Targets};
        let name = subst(c["name"].as_str().unwrap());
        // (a) the public file name of a delegated role
        let exp = chrono::DateTime::<chrono::Utc>::from_timestamp(EXP, 0).unwrap();
        let dt = DelegatedTargets { name: name.clone(), targets: Targets::new("1.0.0".into(), std::num::NonZeroU64::new(1).unwrap(), exp) };
        let fname = dt.filename(false);
        let fname_c = dt.filename(true);
        let mut row = json!({"in": c, "filename": fname, "filename_consistent": fname_c});
        if (name.chars().count() <= deep || c["deep"] == true) && !name.is_empty() {
            row["full"] = json!([full(&c, false).await, full(&c, true).await]);
            row["editor"] = json!([editor_write(&c, false).await, editor_write(&c, true).await]);
        }
        row
    });
    // injectivity over everything seen
    let mut seen: std::collections::HashMap<String, String> = Default::default();
    let mut collisions: Vec<Value> = Vec::new();
    let mut names: BTreeSet<String> = BTreeSet::new();
    for r in &rows {
        let n = r["in"]["name"].as_str().unwrap().to_string();
        let f = r["filename"].as_str().unwrap().to_string();
        if names.insert(n.clone()) {
            if let Some(prev) = seen.insert(f.clone(), n.clone()) {
                if prev != n {
                    collisions.push(json!({"file": f, "names": [prev, n]}));
                }
            }
        }
    }
    let mut rows = rows;
    rows.push(json!({"collisions": collisions}));
    write_ndjson(&out, &rows);
}
