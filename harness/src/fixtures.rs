//! Traces of the repository's own test fixtures (tough/tests/data/*) loaded by the real client,
//! recorded in the event format of Trace_Client.tla.  The documents are not ours: an abstraction
//! function maps each real metadata file to the model's document record (key ids numbered in order of
//! appearance, valid signers by re-verifying the signatures with the harness's own code, pins by
//! looking the pinned digest up among the files of the fixture).

use crate::base::*;
use crate::editor::serve_dir;
use crate::mem::MemTransport;
use crate::util::*;
use aws_lc_rs::signature::{UnparsedPublicKey, ED25519, RSA_PSS_2048_8192_SHA256};
use serde_json::{json, Value};
use std::collections::BTreeMap;
use std::path::{Path, PathBuf};
use tough::{ExpirationEnforcement, RepositoryLoader};

struct Abs {
    keynum: BTreeMap<String, u64>,
    keys: BTreeMap<String, Value>, // keyid -> TUF key object (from any root seen)
    now: i64,
    by_sha: BTreeMap<String, Vec<u8>>,
}

/// RSAPublicKey (PKCS#1) inside a SubjectPublicKeyInfo
fn spki_inner(der: &[u8]) -> Option<Vec<u8>> {
    fn tlv(b: &[u8]) -> Option<(u8, &[u8], &[u8])> {
        let tag = *b.first()?;
        let l0 = *b.get(1)? as usize;
        let (len, hdr) = if l0 < 0x80 { (l0, 2) } else {
            let n = l0 & 0x7f;
            let mut l = 0usize;
            for i in 0..n { l = (l << 8) | *b.get(2 + i)? as usize; }
            (l, 2 + n)
        };
        Some((tag, b.get(hdr..hdr + len)?, b.get(hdr + len..)?))
    }
    let (t, body, _) = tlv(der)?;
    if t != 0x30 { return None; }
    let (t1, _alg, rest) = tlv(body)?;
    if t1 != 0x30 { return None; }
    let (t2, bits, _) = tlv(rest)?;
    if t2 != 0x03 { return None; }
    Some(bits.get(1..)?.to_vec())
}

fn pem_der(pem: &str) -> Option<Vec<u8>> {
    let mut out = Vec::new();
    let (mut acc, mut bits) = (0u32, 0u32);
    for c in pem.lines().filter(|l| !l.starts_with("-----")).flat_map(|l| l.bytes()) {
        let v = match c {
            b'A'..=b'Z' => c - b'A',
            b'a'..=b'z' => c - b'a' + 26,
            b'0'..=b'9' => c - b'0' + 52,
            b'+' => 62,
            b'/' => 63,
            b'=' | b' ' | b'\r' | b'\t' => continue,
            _ => return None,
        };
        acc = (acc << 6) | v as u32;
        bits += 6;
        if bits >= 8 {
            bits -= 8;
            out.push((acc >> bits) as u8);
            acc &= (1 << bits) - 1;
        }
    }
    Some(out)
}

fn verify(key: &Value, msg: &[u8], sig: &[u8]) -> bool {
    match (key["keytype"].as_str(), key["scheme"].as_str()) {
        (Some("ed25519"), _) => hex::decode(key["keyval"]["public"].as_str().unwrap_or("")).map(|pk| UnparsedPublicKey::new(&ED25519, &pk).verify(msg, sig).is_ok()).unwrap_or(false),
        (Some("rsa"), Some("rsassa-pss-sha256")) => pem_der(key["keyval"]["public"].as_str().unwrap_or("")).and_then(|d| spki_inner(&d))
            .map(|pk| UnparsedPublicKey::new(&RSA_PSS_2048_8192_SHA256, &pk).verify(msg, sig).is_ok()).unwrap_or(false),
        _ => false,
    }
}

impl Abs {
    fn num(&mut self, id: &str) -> u64 {
        let id = id.to_lowercase();
        let n = self.keynum.len() as u64 + 1;
        *self.keynum.entry(id).or_insert(n)
    }
    fn learn_keys(&mut self, doc: &Value) {
        if let Some(m) = doc["signed"]["keys"].as_object() {
            for (id, k) in m {
                if sha256_hex(&canon(k)) == id.to_lowercase() {
                    self.keys.insert(id.to_lowercase(), k.clone());
                    self.num(id);
                }
            }
        }
    }
    fn signers(&mut self, doc: &Value) -> Vec<u64> {
        let msg = canon(&doc["signed"]);
        let mut out = Vec::new();
        for s in doc["signatures"].as_array().cloned().unwrap_or_default() {
            let id = s["keyid"].as_str().unwrap_or("").to_lowercase();
            if let (Some(k), Ok(sig)) = (self.keys.get(&id).cloned(), hex::decode(s["sig"].as_str().unwrap_or(""))) {
                if verify(&k, &msg, &sig) {
                    let n = self.num(&id);
                    if !out.contains(&n) { out.push(n); }
                }
            }
        }
        out.sort();
        out
    }
    fn exp(&self, doc: &Value) -> i64 {
        let t = doc["signed"]["expires"].as_str().and_then(|s| chrono::DateTime::parse_from_rfc3339(s).ok()).map(|d| d.timestamp()).unwrap_or(0);
        if t >= self.now { 9 } else { -9 }
    }
    fn pin(&mut self, m: &Value, depth: u32) -> Value {
        let h = match m["hashes"]["sha256"].as_str() {
            None => json!({"k": "none"}),
            Some(x) => match self.by_sha.get(&x.to_lowercase()).cloned() {
                Some(b) if depth < 3 => self.doc(&b, depth + 1),
                _ => json!({"k": "other"}),
            },
        };
        json!({"v": m["version"].as_u64().unwrap_or(0), "h": h, "len": if m["length"].is_u64() { 1 } else { 0 }})
    }
    /// the model's record for a served file
    fn doc(&mut self, bytes: &[u8], depth: u32) -> Value {
        let d: Value = match serde_json::from_slice(bytes) {
            Ok(v) => v,
            Err(_) => return json!({"k": "garbage", "len": 1}),
        };
        let s = &d["signed"];
        let ty = s["_type"].as_str().unwrap_or("").to_lowercase();
        let (v, exp) = (s["version"].as_u64().unwrap_or(0), self.exp(&d));
        match ty.as_str() {
            "root" => {
                self.learn_keys(&d);
                let signers = self.signers(&d);
                let ids = |this: &mut Abs, r: &str| -> Vec<u64> { s["roles"][r]["keyids"].as_array().map(|a| a.iter().map(|x| this.num(x.as_str().unwrap_or(""))).collect()).unwrap_or_default() };
                let thr = |r: &str| s["roles"][r]["threshold"].as_u64().unwrap_or(0);
                let mut rk = ids(self, "root");
                rk.sort();
                json!({"k": "root", "v": v, "exp": exp, "len": 1, "b": 1, "signers": signers, "cons": s["consistent_snapshot"].as_bool().unwrap_or(false),
                       "rk": rk, "rthr": thr("root"), "ts": ids(self, "timestamp"), "tsthr": thr("timestamp"),
                       "sn": ids(self, "snapshot"), "snthr": thr("snapshot"), "tg": ids(self, "targets"), "tgthr": thr("targets")})
            }
            "timestamp" => {
                let signers = self.signers(&d);
                let pin = self.pin(&s["meta"]["snapshot.json"], depth);
                json!({"k": "ts", "v": v, "exp": exp, "len": 1, "b": 1, "signers": signers, "pin": pin})
            }
            "snapshot" => {
                let signers = self.signers(&d);
                let pin = self.pin(&s["meta"]["targets.json"], depth);
                json!({"k": "sn", "v": v, "exp": exp, "len": 1, "b": 1, "signers": signers, "pin": pin})
            }
            "targets" => json!({"k": "tg", "v": v, "exp": exp, "len": 1, "b": 1, "signers": self.signers(&d)}),
            _ => json!({"k": "garbage", "len": 1}),
        }
    }
    fn stored(&mut self, dir: &Path, file: &str) -> Value {
        self.stored_bytes(std::fs::read(dir.join(file)).ok())
    }
    fn stored_bytes(&mut self, bytes: Option<Vec<u8>>) -> Value {
        match bytes {
            None => json!({"k": "none"}),
            Some(b) => {
                let d = self.doc(&b, 9);
                match d["k"].as_str() {
                    Some("ts") | Some("sn") => json!({"k": d["k"], "v": d["v"], "signers": d["signers"], "pinv": d["pin"]["v"]}),
                    Some("tg") => json!({"k": "tg", "v": d["v"], "signers": d["signers"], "pinv": 0}),
                    _ => json!({"k": "garbage"}),
                }
            }
        }
    }
}

fn req_of(name: &str) -> Option<Value> {
    let (pre, rest) = match name.split_once('.') {
        Some((p, r)) if p.chars().all(|c| c.is_ascii_digit()) && !p.is_empty() => (p.parse::<u64>().ok()?, r),
        _ => (0, name),
    };
    match rest {
        "root.json" => Some(json!(["root", pre])),
        "timestamp.json" => Some(json!(["ts", 0])),
        "snapshot.json" => Some(json!(["sn", pre])),
        "targets.json" => Some(json!(["tg", pre])),
        _ => None,
    }
}

async fn one(id: &str, md: &Path, shipped_path: &Path, enforce: bool, cycles: usize) -> Vec<Value> {
    let now = chrono::Utc::now().timestamp();
    let mut a = Abs { keynum: BTreeMap::new(), keys: BTreeMap::new(), now, by_sha: BTreeMap::new() };
    if let Ok(rd) = std::fs::read_dir(md) {
        for e in rd.flatten() {
            if let Ok(b) = std::fs::read(e.path()) {
                a.by_sha.insert(sha256_hex(&b), b);
            }
        }
    }
    let t = MemTransport::new();
    serve_dir(&t, "metadata", md);
    let shipped = std::fs::read(shipped_path).unwrap();
    let shipped_rec = a.doc(&shipped, 0);
    let ds = scratch("fx");
    tough::verif_hooks::set_fixed_base(None);
    tough::verif_hooks::set_clock_script(vec![]);
    let mut out = vec![json!({"ev": "reset", "id": id, "chain": [], "limits": {"root": 1, "ts": 1, "sn": 1, "tg": 1, "updates": 1024}})];
    for _ in 0..cycles {
        out.push(json!({"ev": "clock", "now": 0}));
        out.push(json!({"ev": "start", "shipped": shipped_rec, "enforce": enforce, "now": 0}));
        let _ = tough::verif_hooks::drain_samples();
        let r = guard(RepositoryLoader::new(&shipped, t.metadata_url(), t.targets_url()).transport(t.clone()).datastore(ds.path())
            .expiration_enforcement(if enforce { ExpirationEnforcement::Safe } else { ExpirationEnforcement::Unsafe }).load()).await;
        let samples: Vec<i64> = tough::verif_hooks::drain_samples().iter().map(|_| 0).collect();
        for rq in t.take_log() {
            let name = rq.name.strip_prefix("metadata/").unwrap_or(&rq.name).to_string();
            let req = match req_of(&name) {
                Some(r) => r,
                None => continue, // delegated roles: no counterpart in the phase-level model
            };
            let s = match std::fs::read(md.join(&name)) {
                Ok(b) => a.doc(&b, 0),
                Err(_) => json!({"k": "absent"}),
            };
            out.push(json!({"ev": req[0], "req": req, "s": s, "now": 0, "pulled": rq.pulled_bytes, "chunks": rq.pulled_chunks}));
        }
        let (res, vers) = match r {
            Err(p) => (format!("panic:{p}"), json!({"root": 0, "ts": 0, "sn": 0, "tg": 0, "ltg": 0})),
            Ok(Err(e)) => (classify(&e), json!({"root": 0, "ts": 0, "sn": 0, "tg": 0, "ltg": 0})),
            Ok(Ok(rp)) => ("ok".to_string(), json!({"root": rp.root().signed.version.get(), "ts": rp.timestamp().signed.version.get(),
                "sn": rp.snapshot().signed.version.get(), "tg": rp.targets().signed.version.get(),
                "ltg": rp.snapshot().signed.meta.get("targets.json").map(|m| m.version.get()).unwrap_or(0)})),
        };
        let known = if ds.path().join("latest_known_time.json").exists() { 0 } else { -1 };
        let store = json!({"ts": a.stored(ds.path(), "timestamp.json"), "sn": a.stored(ds.path(), "snapshot.json"), "tg": a.stored(ds.path(), "targets.json"), "known": known});
        out.push(json!({"ev": "end", "res": res, "vers": vers, "samples": samples, "store": store, "cap": t.cap_hit()}));
    }
    out
}

/// the same classification as base::classify, on the Debug and Display strings the load-tracing hook recorded
fn classify_str(dbg: &str, disp: &str) -> String {
    if dbg == "ok" {
        return "ok".into();
    }
    let name: String = dbg.chars().take_while(|c| c.is_alphanumeric() || *c == '_').collect();
    let role = |s: &str| -> String {
        for r in ["root", "timestamp", "snapshot", "targets"] {
            if s.starts_with(r) || s.contains(&format!("verify {r} ")) || s.contains(&format!("parse {r} ")) || s.contains(&format!("of {r} metadata")) {
                return r.to_string();
            }
        }
        String::new()
    };
    match name.as_str() {
        "Transport" => if disp.contains("Maximum size") { "MaxSize".into() } else if disp.contains("Hash mismatch") { "HashMismatch".into() }
                       else if disp.contains("file not found") { "NotFound".into() } else { "Transport".into() },
        "ExpiredMetadata" => format!("Expired:{}", role(disp)),
        "VerifyMetadata" => format!("Verify:{}", role(disp)),
        "OlderMetadata" => format!("Older:{}", role(disp)),
        "VersionMismatch" => format!("VersionMismatch:{}", role(disp)),
        "ParseMetadata" => format!("Parse:{}", role(disp)),
        other => other.to_string(),
    }
}

/// Records written by the load-tracing hook (tough::verif_hooks::traced_load, TOUGH_VERIF_TRACE) while the
/// repository's own test suite ran, converted to Trace_Client events.
pub fn suite(args: &[String]) {
    let dir = PathBuf::from(arg(args, "--dir").expect("--dir"));
    let out = arg(args, "--out").expect("--out");
    let now = chrono::Utc::now().timestamp();
    let mut files: Vec<PathBuf> = std::fs::read_dir(&dir).map(|rd| rd.flatten().map(|e| e.path()).collect()).unwrap_or_default();
    files.sort();
    let mut rows = Vec::new();
    let mut skipped = 0;
    for f in files {
        let rec: Value = match std::fs::read(&f).ok().and_then(|b| serde_json::from_slice(&b).ok()) {
            Some(v) => v,
            None => { skipped += 1; continue; }
        };
        let hexb = |v: &Value| -> Option<Vec<u8>> { v.as_str().and_then(|s| hex::decode(s).ok()) };
        let mut a = Abs { keynum: BTreeMap::new(), keys: BTreeMap::new(), now, by_sha: BTreeMap::new() };
        for r in rec["requests"].as_array().cloned().unwrap_or_default() {
            if let Some(b) = hexb(&r["data"]) {
                a.by_sha.insert(sha256_hex(&b), b);
            }
        }
        let shipped = hexb(&rec["shipped"]).unwrap_or_default();
        let shipped_rec = a.doc(&shipped, 0);
        if shipped_rec["k"] != "root" {
            skipped += 1; // a test that hands the loader something that is not a root document
            continue;
        }
        let mut base = rec["metadata_base_url"].as_str().unwrap_or("").to_string();
        if !base.ends_with('/') { base.push('/'); }
        let id = format!("suite-{}", f.file_stem().unwrap().to_string_lossy());
        let enforce = rec["enforce"].as_bool().unwrap_or(true);
        let mut evs = vec![json!({"ev": "reset", "id": id, "chain": [], "thread": rec["thread"], "exe": rec["exe"],
                                  "limits": {"root": 1, "ts": 1, "sn": 1, "tg": 1, "updates": rec["limits"]["updates"]}}),
                           json!({"ev": "clock", "now": 0}),
                           json!({"ev": "start", "shipped": shipped_rec, "enforce": enforce, "now": 0})];
        let mut accepted = 0;
        let mut nreq = 0;
        for r in rec["requests"].as_array().cloned().unwrap_or_default() {
            let url = r["url"].as_str().unwrap_or("");
            let name = match url.strip_prefix(&base) { Some(n) => n.to_string(), None => continue };
            let req = match req_of(&name) { Some(q) => q, None => continue };
            let data = hexb(&r["data"]).unwrap_or_default();
            // fetch() itself failed (any kind), the stream failed with "file not found", or it failed otherwise
            let s = match r["err"].as_str() {
                Some(e) if e.ends_with("FileNotFound") => json!({"k": "absent"}),
                Some(e) if e.starts_with("fetch:") => json!({"k": "fetcherr"}),
                Some(_) => json!({"k": "streamerr"}),
                None => a.doc(&data, 0),
            };
            nreq += 1;
            if req[0] != "root" { accepted += 1; }
            evs.push(json!({"ev": req[0], "req": req, "s": s, "now": 0, "pulled": data.len(), "chunks": 1}));
        }
        let res = classify_str(rec["result_debug"].as_str().unwrap_or(""), rec["result_display"].as_str().unwrap_or(""));
        let vers = if res == "ok" { let v = &rec["versions"]; json!({"root": v["root"], "ts": v["ts"], "sn": v["sn"], "tg": v["tg"], "ltg": v["ltg"].as_u64().unwrap_or(0)}) }
                   else { json!({"root": 0, "ts": 0, "sn": 0, "tg": 0, "ltg": 0}) };
        // clock samples: the wall clock (tick 0) once for the root and once per document whose expiry was judged
        let nsamples = if !enforce { 0 } else if res == "ok" { 4 } else {
            let passed = if accepted > 0 { 1 + (accepted - 1) } else { 0 }; // root + documents before the failing one
            passed + usize::from(res.starts_with("Expired:") && res != "Expired:root" || res == "Expired:root")
        };
        let store = if rec["store_known"] == true {
            let st = &rec["store"];
            json!({"ts": a.stored_bytes(hexb(&st["timestamp.json"])), "sn": a.stored_bytes(hexb(&st["snapshot.json"])), "tg": a.stored_bytes(hexb(&st["targets.json"])),
                   "known": if st["latest_known_time.json"].is_string() { 0 } else { -1 }})
        } else { json!({"k": "unknown"}) };
        let _ = nreq;
        evs.push(json!({"ev": "end", "res": res, "vers": vers, "samples": vec![0; nsamples], "store": store, "cap": false}));
        rows.extend(evs);
    }
    eprintln!("suite traces: {} records skipped", skipped);
    write_ndjson(&out, &rows);
}

pub fn run(args: &[String]) {
    let data = PathBuf::from(arg_or(args, "--data", "/repo/tough/tests/data"));
    let out = arg(args, "--out").expect("--out");
    let list: Vec<(&str, &str, &str, bool)> = vec![
        ("fx-tuf-reference-impl", "tuf-reference-impl/metadata", "tuf-reference-impl/metadata/1.root.json", true),
        ("fx-consistent-snapshots", "consistent-snapshots/metadata", "consistent-snapshots/metadata/1.root.json", true),
        ("fx-rotated-root", "rotated-root", "rotated-root/1.root.json", true),
        ("fx-dubious-role-names", "dubious-role-names/metadata", "dubious-role-names/metadata/1.root.json", true),
        ("fx-expired-repository-safe", "expired-repository/metadata", "expired-repository/metadata/1.root.json", true),
        ("fx-expired-repository-unsafe", "expired-repository/metadata", "expired-repository/metadata/1.root.json", false),
        ("fx-safe-target-paths", "safe-target-paths/metadata", "safe-target-paths/metadata/1.root.json", true),
    ];
    let rt = tokio::runtime::Builder::new_current_thread().enable_all().build().unwrap();
    let mut rows = Vec::new();
    for (id, md, root, enforce) in list {
        if !data.join(md).is_dir() || !data.join(root).is_file() {
            continue;
        }
        // two cycles on one datastore: the second one meets the stored documents
        rows.extend(rt.block_on(one(id, &data.join(md), &data.join(root), enforce, 2)));
    }
    write_ndjson(&out, &rows);
}
