//! Shared helpers: loading through the real client, parallel map, ndjson output.

use crate::mem::MemTransport;
use serde_json::Value;
use std::io::Write;
use std::path::Path;
use tough::{ExpirationEnforcement, Limits, Repository, RepositoryLoader};

pub async fn load(
    shipped_root: &[u8],
    t: &MemTransport,
    datastore: Option<&Path>,
    limits: Option<Limits>,
    enforce: bool,
) -> Result<Repository, tough::error::Error> {
    let mut l = RepositoryLoader::new(&shipped_root, t.metadata_url(), t.targets_url())
        .transport(t.clone())
        .expiration_enforcement(if enforce {
            ExpirationEnforcement::Safe
        } else {
            ExpirationEnforcement::Unsafe
        });
    if let Some(d) = datastore {
        l = l.datastore(d);
    }
    if let Some(li) = limits {
        l = l.limits(li);
    }
    l.load().await
}

/// Run `f` over `items` on `threads` OS threads, each with its own current-thread tokio runtime.
/// Results keep the input order.
pub fn par_map<T, R, F, Fut>(items: Vec<T>, threads: usize, f: F) -> Vec<R>
where
    T: Send + 'static,
    R: Send + 'static,
    F: Fn(usize, T) -> Fut + Send + Sync + Clone + 'static,
    Fut: std::future::Future<Output = R>,
{
    let n = items.len();
    let threads = threads.max(1).min(n.max(1));
    let mut buckets: Vec<Vec<(usize, T)>> = (0..threads).map(|_| Vec::new()).collect();
    for (i, it) in items.into_iter().enumerate() {
        buckets[i % threads].push((i, it));
    }
    let mut handles = Vec::new();
    for b in buckets {
        let f = f.clone();
        handles.push(std::thread::spawn(move || {
            let rt = tokio::runtime::Builder::new_current_thread()
                .enable_all()
                .build()
                .unwrap();
            let mut out = Vec::new();
            for (i, it) in b {
                let r = rt.block_on(f(i, it));
                out.push((i, r));
            }
            out
        }));
    }
    let mut all: Vec<(usize, R)> = Vec::with_capacity(n);
    for h in handles {
        all.extend(h.join().expect("worker thread panicked"));
    }
    all.sort_by_key(|x| x.0);
    all.into_iter().map(|x| x.1).collect()
}

pub fn threads() -> usize {
    std::env::var("VH_THREADS")
        .ok()
        .and_then(|s| s.parse().ok())
        .unwrap_or(12)
}

pub fn read_ndjson(path: &str) -> Vec<Value> {
    let s = std::fs::read_to_string(path).unwrap_or_else(|e| panic!("read {path}: {e}"));
    s.lines()
        .filter(|l| !l.trim().is_empty())
        .map(|l| serde_json::from_str(l).unwrap_or_else(|e| panic!("bad json line {l}: {e}")))
        .collect()
}

pub fn write_ndjson(path: &str, rows: &[Value]) {
    let mut f = std::io::BufWriter::new(std::fs::File::create(path).expect("create out"));
    for r in rows {
        serde_json::to_writer(&mut f, r).unwrap();
        f.write_all(b"\n").unwrap();
    }
}

pub fn arg(args: &[String], name: &str) -> Option<String> {
    args.iter()
        .position(|a| a == name)
        .and_then(|i| args.get(i + 1).cloned())
}
pub fn arg_or(args: &[String], name: &str, d: &str) -> String {
    arg(args, name).unwrap_or_else(|| d.to_string())
}

/// Catch panics of the code under test: a panic is data (outcome class "panic").
pub async fn guard<F, T>(fut: F) -> Result<T, String>
where
    F: std::future::Future<Output = T>,
{
    use futures::FutureExt;
    match std::panic::AssertUnwindSafe(fut).catch_unwind().await {
        Ok(v) => Ok(v),
        Err(p) => Err(p
            .downcast_ref::<String>()
            .cloned()
            .or_else(|| p.downcast_ref::<&str>().map(|s| s.to_string()))
            .unwrap_or_else(|| "panic".into())),
    }
}

/// scratch directory root (tmpfs), removed by the caller
pub fn scratch(tag: &str) -> tempfile::TempDir {
    let base = if Path::new("/dev/shm").is_dir() { "/dev/shm" } else { "/tmp" };
    tempfile::Builder::new()
        .prefix(&format!("verif.{tag}."))
        .tempdir_in(base)
        .expect("scratch dir")
}
