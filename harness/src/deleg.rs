//! C07 / C09 (delegations): replay of the repositories enumerated by Delegation.tla.

use crate::base::*;
use crate::mem::MemTransport;
use crate::util::*;
use serde_json::{json, Map, Value};
use std::collections::HashMap;

const EXP: i64 = BASE_TIME + 3650 * DAY;

fn role_key(name: &str) -> K {
    let n = 110 + name.bytes().fold(0u64, |a, b| a * 7 + b as u64) % 40;
    ed_key(n)
}

/// concrete names for the abstract ones; `variant` selects spellings that need resolution
fn concrete_name(n: &str, variant: u64) -> (String, String) {
    let resolved = match n {
        "n1" => "x/one.txt",
        "n2" => "y/two.txt",
        "n3" => "z/three.txt",
        _ => "w/other.txt",
    };
    let raw = match (n, variant % 3) {
        ("n1", 1) => "x/sub/../one.txt".to_string(),
        ("n2", 2) => "q/../y/./two.txt".to_string(),
        _ => resolved.to_string(),
    };
    (raw, resolved.to_string())
}

/// a path set that matches exactly the names in `m` among the concrete names in use
fn paths_for(m: &[String], all: &[String], variant: u64) -> Value {
    // hash prefixes: long enough to be unambiguous among the names in use
    let res: HashMap<String, String> = all.iter().map(|n| (n.clone(), concrete_name(n, 0).1)).collect();
    if variant % 4 == 3 {
        let hp: Vec<String> = m.iter().map(|n| sha256_hex(res[n].as_bytes())[..6].to_string()).collect();
        return json!({"path_hash_prefixes": hp});
    }
    let mut ps: Vec<String> = Vec::new();
    for n in m {
        let r = &res[n];
        let p = match variant % 4 {
            0 => r.clone(),                                            // literal
            1 => format!("{}/*", r.split('/').next().unwrap()),        // dir/*
            _ => { let mut c: Vec<char> = r.chars().collect(); let l = c.len(); c[l - 5] = '?'; c.into_iter().collect() } // one '?'
        };
        ps.push(p);
    }
    if ps.is_empty() {
        ps.push("nothing-matches-this/never".to_string());
    }
    json!({"paths": ps})
}

fn content_of(role: &str, name: &str) -> Vec<u8> {
    format!("content of {name} as listed by role {role}").into_bytes()
}

struct Built {
    t: MemTransport,
    shipped: Vec<u8>,
    /// sha256 hex -> (role, name)
    by_digest: HashMap<String, (String, String)>,
}

fn build(edges: &[Value], lists: &Value, names: &[String], variant: u64, pad_roles: usize, consistent: bool) -> Built {
    let (r, ts, sn, tg) = (ed_key(100), ed_key(101), ed_key(102), ed_key(103));
    let root = root_signed(1, EXP, consistent, &[&r, &ts, &sn, &tg], &[
        ("root", vec![r.keyid.clone()], 1), ("timestamp", vec![ts.keyid.clone()], 1),
        ("snapshot", vec![sn.keyid.clone()], 1), ("targets", vec![tg.keyid.clone()], 1)]);
    let shipped = to_bytes(&envelope(&root, &[&r]));
    let t = MemTransport::new();
    let mut by_digest = HashMap::new();
    // all roles that occur
    let mut roles: Vec<String> = vec!["targets".to_string()];
    for e in edges {
        for f in ["from", "to"] {
            let n = e[f].as_str().unwrap().to_string();
            if !roles.contains(&n) { roles.push(n); }
        }
    }
    let mut meta = Map::new();
    let pre = |v: u64, n: &str| if consistent { format!("metadata/{v}.{n}") } else { format!("metadata/{n}") };
    let mut top_bytes = Vec::new();
    for role in &roles {
        let mut entries = Map::new();
        if let Some(l) = lists.get(role).and_then(|x| x.as_array()) {
            for n in l {
                let n = n.as_str().unwrap();
                let (raw, resolved) = concrete_name(n, variant);
                let c = content_of(role, n);
                by_digest.insert(sha256_hex(&c), (role.clone(), n.to_string()));
                t.put_body(&format!("targets/{}.{}", sha256_hex(&c), resolved), c.clone());
                entries.insert(raw, target_entry(&c));
            }
        }
        let ch: Vec<&Value> = edges.iter().filter(|e| e["from"] == role.as_str()).collect();
        let delegations = if ch.is_empty() && role != "targets" { None } else {
            let mut table: Vec<K> = Vec::new();
            let mut rs = Vec::new();
            for e in &ch {
                let to = e["to"].as_str().unwrap();
                let k = role_key(to);
                let m: Vec<String> = e["m"].as_array().unwrap().iter().map(|x| x.as_str().unwrap().to_string()).collect();
                let mut dr = json!({"name": to, "keyids": [k.keyid.clone()], "threshold": 1, "terminating": false});
                let ps = paths_for(&m, names, variant + rs.len() as u64);
                for (kk, vv) in ps.as_object().unwrap() { dr[kk] = vv.clone(); }
                rs.push(dr);
                if !table.iter().any(|x| x.keyid == k.keyid) { table.push(k); }
            }
            let tr: Vec<&K> = table.iter().collect();
            Some(delegations_json(&tr, rs))
        };
        let signed = targets_signed(1, EXP, entries, delegations);
        let signer = if role == "targets" { ed_key(103) } else { role_key(role) };
        let mut bytes = to_bytes(&envelope(&signed, &[&signer]));
        if role == "targets" {
            top_bytes = bytes.clone();
            meta.insert("targets.json".into(), meta_entry(1, Some(bytes.len() as u64), Some(&sha256_hex(&bytes))));
            t.put_body(&pre(1, "targets.json"), bytes);
        } else {
            if pad_roles > 0 {
                let want = top_bytes.len().max(600) * pad_roles;
                while bytes.len() < want { bytes.push(b' '); }
            }
            meta.insert(format!("{role}.json"), meta_entry(1, None, None));
            t.put_body(&pre(1, &format!("{role}.json")), bytes);
        }
    }
    let sn_bytes = to_bytes(&envelope(&snapshot_signed(1, EXP, meta), &[&sn]));
    let ts_env = envelope(&timestamp_signed(1, EXP, meta_entry(1, Some(sn_bytes.len() as u64), Some(&sha256_hex(&sn_bytes)))), &[&ts]);
    t.put_body(&pre(1, "snapshot.json"), sn_bytes);
    t.put_body("metadata/timestamp.json", to_bytes(&ts_env));
    Built { t, shipped, by_digest }
}

/// C05 for delegated roles: listed in snapshot with the right version, or not.
async fn pin_case(c: &Value) -> Value {
    let depth = c["depth"].as_u64().unwrap();
    let listed = c["listed"].as_bool().unwrap();
    let pinned = c["pinned"].as_u64().unwrap();
    let filev = c["file"].as_u64().unwrap();
    let cons = c["cons"].as_bool().unwrap();
    let (r, ts, sn, tg) = (ed_key(100), ed_key(101), ed_key(102), ed_key(103));
    let (k1, k2) = (role_key("a"), role_key("b"));
    let root = root_signed(1, EXP, cons, &[&r, &ts, &sn, &tg], &[
        ("root", vec![r.keyid.clone()], 1), ("timestamp", vec![ts.keyid.clone()], 1),
        ("snapshot", vec![sn.keyid.clone()], 1), ("targets", vec![tg.keyid.clone()], 1)]);
    let shipped = to_bytes(&envelope(&root, &[&r]));
    let t = MemTransport::new();
    let pre = |v: u64, n: &str| if cons { format!("metadata/{v}.{n}") } else { format!("metadata/{n}") };
    // role under test: "a" at depth 1, or "b" below "a" at depth 2
    let under = if depth == 1 { "a" } else { "b" };
    let b_doc = targets_signed(if under == "b" { filev } else { 1 }, EXP, Map::new(), None);
    let a_deleg = if depth == 2 {
        Some(delegations_json(&[&k2], vec![delegated_role_json("b", &[k2.keyid.clone()], 1, &["*"], false)]))
    } else { None };
    let a_doc = targets_signed(if under == "a" { filev } else { 1 }, EXP, Map::new(), a_deleg);
    let top = targets_signed(1, EXP, Map::new(), Some(delegations_json(&[&k1], vec![delegated_role_json("a", &[k1.keyid.clone()], 1, &["*"], false)])));
    let mut meta = Map::new();
    meta.insert("targets.json".into(), meta_entry(1, None, None));
    let ver_of = |role: &str| if role == under { pinned } else { 1 };
    for role in ["a", "b"] {
        if role == "b" && depth == 1 { continue; }
        if role == under && !listed { continue; }
        meta.insert(format!("{role}.json"), meta_entry(ver_of(role), None, None));
    }
    // files are served under every name the client could ask for (pinned and actual version)
    for v in [1u64, 2] {
        t.put_body(&pre(v, "a.json"), to_bytes(&envelope(&a_doc, &[&k1])));
        t.put_body(&pre(v, "b.json"), to_bytes(&envelope(&b_doc, &[&k2])));
    }
    t.put_body(&pre(1, "targets.json"), to_bytes(&envelope(&top, &[&tg])));
    t.put_body(&pre(1, "snapshot.json"), to_bytes(&envelope(&snapshot_signed(1, EXP, meta), &[&sn])));
    t.put_body("metadata/timestamp.json", to_bytes(&envelope(&timestamp_signed(1, EXP, meta_entry(1, None, None)), &[&ts])));
    let r = guard(load(&shipped, &t, None, None, true)).await;
    let log = t.take_log();
    let reqs: Vec<String> = log.iter().map(|l| l.name.trim_start_matches("metadata/").to_string()).collect();
    let (ok, cls, ver) = match r {
        Err(p) => (false, format!("panic:{p}"), 0),
        Ok(Err(e)) => (false, classify(&e), 0),
        Ok(Ok(rp)) => {
            let v = rp.delegated_role(under).and_then(|d| d.targets.as_ref()).map(|x| x.signed.version.get()).unwrap_or(0);
            (true, "ok".to_string(), v)
        }
    };
    json!({"loaded": ok, "cls": cls, "role_version": ver, "reqs": reqs,
           "expected_name": if cons { format!("{pinned}.{under}.json") } else { format!("{under}.json") }})
}

pub fn run(args: &[String]) {
    if arg_or(args, "--mode", "tree") == "pins" {
        let cases = read_ndjson(&arg(args, "--cases").expect("--cases"));
        let out = arg(args, "--out").expect("--out");
        let rows = par_map(cases, threads(), move |_, c| async move {
            let o = pin_case(&c["c"]).await;
            json!({"in": c, "obs": o})
        });
        write_ndjson(&out, &rows);
        return;
    }
    let cases = read_ndjson(&arg(args, "--cases").expect("--cases"));
    let out = arg(args, "--out").expect("--out");
    let mode = arg_or(args, "--mode", "tree");
    let pad: usize = arg_or(args, "--pad", "0").parse().unwrap();
    let rows = par_map(cases, threads(), move |i, c| {
        let mode = mode.clone();
        async move {
            let edges = c["edges"].as_array().unwrap().clone();
            let variant = c.get("variant").and_then(|x| x.as_u64()).unwrap_or(i as u64);
            if mode == "tree" {
                let names: Vec<String> = c["find"].as_object().unwrap().keys().cloned().collect();
                let b = build(&edges, &c["lists"], &names, variant, pad, true);
                let r = guard(load(&b.shipped, &b.t, None, None, true)).await;
                let (loaded, cls, repo) = match r {
                    Err(p) => (false, format!("panic:{p}"), None),
                    Ok(Err(e)) => (false, classify(&e), None),
                    Ok(Ok(rp)) => (true, "ok".to_string(), Some(rp)),
                };
                let mut found = Map::new();
                if let Some(rp) = &repo {
                    for n in &names {
                        let (raw, _) = concrete_name(n, variant);
                        b.t.take_log();
                        let tn = tough::TargetName::new(raw).unwrap();
                        let who = match rp.read_target(&tn).await {
                            Ok(None) => "none".to_string(),
                            Err(e) => format!("err:{}", classify(&e)),
                            Ok(Some(s)) => {
                                use tough::IntoVec;
                                let data = s.into_vec().await;
                                let log = b.t.take_log();
                                let digest = log.last().map(|l| l.name.trim_start_matches("targets/").split('.').next().unwrap_or("").to_string()).unwrap_or_default();
                                match (b.by_digest.get(&digest), data) {
                                    (Some((role, _)), Ok(_)) => role.clone(),
                                    (Some((role, _)), Err(_)) => format!("err-after:{role}"),
                                    (None, _) => format!("unknown-digest:{digest}"),
                                }
                            }
                        };
                        found.insert(n.clone(), json!(who));
                    }
                    // all_targets must only expose names
                }
                json!({"case": i, "in": c, "variant": variant, "loaded": loaded, "cls": cls, "found": found})
            } else {
                let b = build(&edges, &json!({}), &["n1".to_string()], 1, pad, false);
                b.t.state.lock().unwrap().request_cap = 400;
                let started = std::time::Instant::now();
                // max_root_updates = 1: the bound of C09 is then (delegations + 1 + 3) requests
                let lim = tough::Limits { max_root_updates: 1, ..Default::default() };
                let fut = load(&b.shipped, &b.t, None, Some(lim), true);
                let r = tokio::time::timeout(std::time::Duration::from_secs(20), guard(fut)).await;
                let (res, cls) = match r {
                    Err(_) => ("timeout".to_string(), "timeout".to_string()),
                    Ok(Err(p)) => ("panic".to_string(), p),
                    Ok(Ok(Err(e))) => ("err".to_string(), format!("{}: {}", classify(&e), format!("{e}").chars().take(160).collect::<String>())),
                    Ok(Ok(Ok(_))) => ("ok".to_string(), "ok".to_string()),
                };
                let log = b.t.take_log();
                let reqs: Vec<String> = log.iter().map(|l| l.name.trim_start_matches("metadata/").trim_end_matches(".json").to_string())
                    .filter(|n| !["timestamp", "snapshot", "targets", "2.root"].contains(&n.as_str())).collect();
                json!({"case": i, "in": c, "res": res, "cls": cls, "reqs": reqs, "nreq": log.len(), "cap": b.t.cap_hit(),
                       "ms": started.elapsed().as_millis() as u64, "pad": pad})
            }
        }
    });
    write_ndjson(&out, &rows);
}
