//! C06 / C08: reading and saving a target -- replay of the behaviours of Stream.tla and of the
//! names enumerated by Names.tla.

use crate::base::*;
use crate::mem::{Chunk, Served};
use crate::repo::*;
use crate::util::*;
use futures::StreamExt;
use serde_json::{json, Value};
use std::collections::BTreeMap;
use std::path::Path;
use std::sync::{Arc, Mutex};

fn unit_bytes(x: u64, u: usize) -> Vec<u8> {
    (0..u).map(|i| ((x as usize * 131 + i * 7 + 3) % 251) as u8).collect()
}
fn content(units: &[u64], u: usize) -> Vec<u8> {
    units.iter().flat_map(|x| unit_bytes(*x, u)).collect()
}

fn script_of(full: &[Value], u: usize) -> Served {
    let mut chunks = Vec::new();
    for it in full {
        match it["k"].as_str().unwrap() {
            "data" => {
                let us: Vec<u64> = it["u"].as_array().unwrap().iter().map(|x| x.as_u64().unwrap()).collect();
                chunks.push(Chunk::Data(content(&us, u)));
            }
            "err" => chunks.push(Chunk::Err),
            "endless" => return endless_after(chunks, u),
            x => panic!("item {x}"),
        }
    }
    Served::Script(chunks)
}
fn endless_after(mut chunks: Vec<Chunk>, u: usize) -> Served {
    // "endless": far more data than any signed length used here
    for _ in 0..64 {
        chunks.push(Chunk::Data(unit_bytes(60, u)));
    }
    Served::Script(chunks)
}

fn snapshot_tree(root: &Path) -> BTreeMap<String, Vec<u8>> {
    let mut m = BTreeMap::new();
    fn walk(base: &Path, p: &Path, m: &mut BTreeMap<String, Vec<u8>>) {
        if let Ok(rd) = std::fs::read_dir(p) {
            for e in rd.flatten() {
                let path = e.path();
                let ft = match e.file_type() { Ok(t) => t, Err(_) => continue };
                if ft.is_dir() {
                    walk(base, &path, m);
                } else {
                    let rel = path.strip_prefix(base).unwrap().to_string_lossy().to_string();
                    m.insert(rel, std::fs::read(&path).unwrap_or_default());
                }
            }
        }
    }
    walk(root, root, &mut m);
    m
}

async fn one(b: &Value, u: usize, consistent: bool, delegated: bool, saving: bool) -> Value {
    let n = b["n"].as_u64().unwrap();
    let signed: Vec<u8> = content(&(1..=n).collect::<Vec<_>>(), u);
    let name = "t/file.bin".to_string();
    let other = ("t/other.bin".to_string(), content(&[70, 71], u));
    let mini = mini_repo(consistent, delegated, &[(name.clone(), signed.clone()), other.clone()]);
    let key = target_key(consistent, &name, &signed);
    mini.t.put(&key, script_of(b["full"].as_array().unwrap(), u));
    mini.t.put_body(&target_key(consistent, &other.0, &other.1), other.1.clone());
    let repo = match load(&mini.shipped, &mini.t, None, None, true).await {
        Ok(r) => r,
        Err(e) => return json!({"st":"load-failed","cls":format!("{e}")}),
    };
    mini.t.take_log();
    let tn = tough::TargetName::new(name.clone()).unwrap();
    if !saving {
        let mut delivered: Vec<u8> = Vec::new();
        let (st, cls) = match guard(async {
            match repo.read_target(&tn).await {
                Err(e) => ("err".to_string(), classify(&e)),
                Ok(None) => ("none".to_string(), "none".to_string()),
                Ok(Some(mut s)) => {
                    let mut r = ("ok".to_string(), "none".to_string());
                    while let Some(item) = s.next().await {
                        match item {
                            Ok(bytes) => delivered.extend_from_slice(&bytes),
                            Err(e) => { r = ("err".to_string(), classify(&e)); break; }
                        }
                    }
                    r
                }
            }
        }).await {
            Ok(x) => x,
            Err(p) => ("panic".to_string(), p),
        };
        let log = mini.t.take_log();
        let reqs: Vec<String> = log.iter().map(|r| r.name.clone()).collect();
        // a name without an authorized entry: 'not found', and nothing is requested
        let absent = tough::TargetName::new("t/absent.bin").unwrap();
        let unknown = match repo.read_target(&absent).await {
            Ok(None) => "none",
            Ok(Some(_)) => "stream",
            Err(_) => "err",
        };
        let unknown_reqs = mini.t.take_log().len();
        return json!({"st": st, "cls": cls, "delivered_bytes": delivered.len(), "unknown": unknown, "unknown_reqs": unknown_reqs,
            "delivered_units": if u > 0 { delivered.len() / u } else { 0 },
            "digest_ok": sha256(&delivered) == sha256(&signed), "signed_len": signed.len(),
            "reqs": reqs, "expected_key": key});
    }
    // saving
    let sand = scratch("c08");
    let parent = sand.path().join("parent");
    let outdir = parent.join("out");
    std::fs::create_dir_all(&outdir).unwrap();
    std::fs::write(parent.join("sibling.txt"), b"sibling").unwrap();
    let dest = outdir.join(&name);
    let prev_marker = b"previous content of the destination".to_vec();
    if b["prev"] == "prev" {
        std::fs::create_dir_all(dest.parent().unwrap()).unwrap();
        std::fs::write(&dest, &prev_marker).unwrap();
    }
    let before = snapshot_tree(&parent);
    let seen_bad = Arc::new(Mutex::new(Vec::<String>::new()));
    let mut t2 = mini.t.clone();
    {
        let dest = dest.clone();
        let prev = if b["prev"] == "prev" { Some(prev_marker.clone()) } else { None };
        let seen = seen_bad.clone();
        let keyc = key.clone();
        t2.observer = Some(Arc::new(move |name: &str, delivered: u64| {
            if name != keyc { return; }
            let cur = std::fs::read(&dest).ok();
            if cur != prev {
                seen.lock().unwrap().push(format!("after {delivered} bytes the destination holds {:?} bytes", cur.map(|c| c.len())));
            }
        }));
    }
    // the repository object holds its own clone of the transport: reload with the observing one
    let repo = load(&mini.shipped, &t2, None, None, true).await.expect("reload");
    t2.take_log();
    let r = guard(repo.save_target(&tn, &outdir, tough::Prefix::None)).await;
    let (st, cls) = match r {
        Err(p) => ("panic".to_string(), p),
        Ok(Ok(())) => ("ok".to_string(), "none".to_string()),
        Ok(Err(e)) => ("err".to_string(), classify(&e)),
    };
    let after = snapshot_tree(&parent);
    let changed: Vec<String> = after.iter().filter(|(k, v)| before.get(*k) != Some(*v)).map(|(k, _)| k.clone())
        .chain(before.keys().filter(|k| !after.contains_key(*k)).cloned()).collect();
    let dest_rel = format!("out/{name}");
    let dest_ok = after.get(&dest_rel).map(|c| c == &signed).unwrap_or(false);
    json!({"st": st, "cls": cls, "changed": changed, "dest_is_signed": dest_ok,
        "observer_bad": *seen_bad.lock().unwrap(), "dest_rel": dest_rel})
}

pub fn run(args: &[String]) {
    let beh = read_ndjson(&arg(args, "--behaviours").expect("--behaviours"));
    let out = arg(args, "--out").expect("--out");
    let u: usize = arg_or(args, "--unit", "7").parse().unwrap();
    let saving = arg_or(args, "--saving", "false") == "true";
    let variants: Vec<(bool, bool)> = arg_or(args, "--variants", "ff,tf,ft,tt")
        .split(',')
        .map(|s| (s.as_bytes()[0] == b't', s.as_bytes()[1] == b't'))
        .collect();
    let mut jobs = Vec::new();
    for (i, b) in beh.iter().enumerate() {
        for (c, d) in &variants {
            jobs.push((i, b.clone(), *c, *d));
        }
    }
    let rows = par_map(jobs, threads(), move |_, (i, b, c, d)| async move {
        let r = one(&b, u, c, d, saving).await;
        json!({"case": i, "b": b, "unit": u, "consistent": c, "delegated": d, "saving": saving, "obs": r})
    });
    write_ndjson(&out, &rows);
}

fn subst(s: &str) -> String {
    s.replace('^', "\u{1}").replace('@', "\u{e9}")
}

/// Names: every enumerated target name is parsed, put into a repository, and saved.
async fn name_case(b: &Value, prefix_digest: bool) -> Value {
    let raw = subst(b["name"].as_str().unwrap());
    let exp_resolved = subst(b["resolved"].as_str().unwrap());
    let tn = match tough::TargetName::new(raw.clone()) {
        Err(e) => return json!({"parse":"err","cls":classify(&e)}),
        Ok(t) => t,
    };
    let resolved = tn.resolved().to_string();
    let data = format!("content of {raw:?}").into_bytes();
    let consistent = prefix_digest;
    let mini = mini_repo(consistent, false, &[(raw.clone(), data.clone())]);
    // serve the content under exactly the URL the client derives from the name (a target name is
    // joined to the base URL as a relative reference, which trims, re-roots or re-schemes some names)
    let fname = target_key(consistent, &resolved, &data);
    let fname = fname.strip_prefix("targets/").unwrap().to_string();
    if let Ok(u) = mini.t.targets_url().join(&fname) {
        mini.t.put_body(u.as_str(), data.clone());
    }
    let repo = match load(&mini.shipped, &mini.t, None, None, true).await {
        Ok(r) => r,
        Err(e) => return json!({"parse":"ok","resolved":resolved,"load":classify(&e), "load_msg": format!("{e}")}),
    };
    let sand = scratch("c08n");
    let parent = sand.path().join("parent");
    let outdir = parent.join("out");
    std::fs::create_dir_all(&outdir).unwrap();
    std::fs::write(parent.join("sibling.txt"), b"sibling").unwrap();
    let before = snapshot_tree(sand.path());
    let r = guard(repo.save_target(&tn, &outdir, if prefix_digest { tough::Prefix::Digest } else { tough::Prefix::None })).await;
    let (st, cls) = match r {
        Err(p) => ("panic".to_string(), p),
        Ok(Ok(())) => ("ok".to_string(), "none".to_string()),
        Ok(Err(e)) => ("err".to_string(), classify(&e)),
    };
    let after = snapshot_tree(sand.path());
    let changed: Vec<String> = after.iter().filter(|(k, v)| before.get(*k) != Some(*v)).map(|(k, _)| k.clone())
        .chain(before.keys().filter(|k| !after.contains_key(*k)).cloned()).collect();
    let outside: Vec<String> = changed.iter().filter(|p| !p.starts_with("parent/out/")).cloned().collect();
    let exp_rel = if prefix_digest {
        format!("parent/out/{}.{}", sha256_hex(&data), exp_resolved)
    } else {
        format!("parent/out/{exp_resolved}")
    };
    let content_ok = changed.iter().all(|p| after.get(p).map(|c| c == &data).unwrap_or(false));
    json!({"parse":"ok","resolved":resolved,"st":st,"cls":cls,"changed":changed,"outside":outside,
        "expected_rel":exp_rel,"content_ok":content_ok})
}

pub fn run_names(args: &[String]) {
    let names = read_ndjson(&arg(args, "--names").expect("--names"));
    let out = arg(args, "--out").expect("--out");
    let mut jobs = Vec::new();
    for b in names {
        for pd in [false, true] {
            jobs.push((b.clone(), pd));
        }
    }
    let rows = par_map(jobs, threads(), move |_, (b, pd)| async move {
        let r = match guard(name_case(&b, pd)).await {
            Ok(v) => v,
            Err(p) => json!({"parse":"panic","cls":p}),
        };
        json!({"b": b, "prefix_digest": pd, "obs": r})
    });
    write_ndjson(&out, &rows);
}
