// LD_PRELOAD shim: logs, kills at, or fails the n-th file-system call made on paths under a prefix.
//
//   SHIM_PREFIX  directory whose entries are tracked (the datastore)
//   SHIM_LOG     file to append the call log to (one line per counted call)
//   SHIM_N       1-based number of the counted call to act on (0 / unset: only log)
//   SHIM_MODE    kill-before | kill-after | enospc | eio
//   SHIM_GATE_DIR, SHIM_TAG   (scheduling of concurrent cycles, TufStoreConc.tla) the process stops
//                immediately before every open-for-reading of timestamp.json / snapshot.json /
//                targets.json and before the temporary file that replaces it is created: it creates
//                <gate>/<tag>.at.<j> (j = 1, 2, ... per process) and waits until <gate>/<tag>.go.<j>
//                exists (at most 30 s, then it carries on)
//
// Counted calls: open/open64/openat/openat64/creat on a tracked path, write on a tracked fd,
// close on a tracked fd, unlink/unlinkat, rename/renameat/renameat2 touching a tracked path.
#define _GNU_SOURCE
#include <dlfcn.h>
#include <errno.h>
#include <fcntl.h>
#include <pthread.h>
#include <signal.h>
#include <stdarg.h>
#include <stdio.h>
#include <stdlib.h>
#include <string.h>
#include <sys/types.h>
#include <unistd.h>

#define MAXFD 4096
static char tracked[MAXFD][128];
static int is_tracked[MAXFD];
static long counter = 0;
static pthread_mutex_t mu = PTHREAD_MUTEX_INITIALIZER;

static const char *prefix(void) { return getenv("SHIM_PREFIX"); }
static long target_n(void) { const char *s = getenv("SHIM_N"); return s ? atol(s) : 0; }
static const char *mode(void) { const char *s = getenv("SHIM_MODE"); return s ? s : ""; }

static const char *rel(const char *path) {
    const char *p = prefix();
    if (!p || !path) return NULL;
    size_t n = strlen(p);
    if (strncmp(path, p, n) != 0) return NULL;
    const char *r = path + n;
    while (*r == '/') r++;
    return r;
}

static void logline(long n, const char *op, const char *a, const char *b) {
    const char *lp = getenv("SHIM_LOG");
    if (!lp) return;
    static int (*real_open)(const char *, int, ...) = NULL;
    static ssize_t (*real_write)(int, const void *, size_t) = NULL;
    static int (*real_close)(int) = NULL;
    if (!real_open) real_open = dlsym(RTLD_NEXT, "open");
    if (!real_write) real_write = dlsym(RTLD_NEXT, "write");
    if (!real_close) real_close = dlsym(RTLD_NEXT, "close");
    int fd = real_open(lp, O_WRONLY | O_CREAT | O_APPEND, 0644);
    if (fd < 0) return;
    char buf[512];
    int len = snprintf(buf, sizeof buf, "%ld %s %s %s\n", n, op, a ? a : "-", b ? b : "-");
    real_write(fd, buf, len);
    real_close(fd);
}

static int main_file(const char *s) {
    return s && (!strcmp(s, "timestamp.json") || !strcmp(s, "snapshot.json") || !strcmp(s, "targets.json"));
}
static long gate_no = 0;
static int gate_armed = 0, gate_opens = 0;
// Stops before the read of a stored document and before its replacement.  The rename itself may be
// issued as a raw system call (tempfile::persist) that this library does not see, so the second
// gate of a phase is placed at the call that starts the replacement: after the stored document has
// been read, the first file opened for writing is latest_known_time's temporary file, the second
// one the temporary file that is renamed over the stored document.
static void gate(const char *op, const char *a, const char *b) {
    const char *gd = getenv("SHIM_GATE_DIR");
    const char *tag = getenv("SHIM_TAG");
    if (!gd || !tag) return;
    (void)b;
    int hit = 0;
    pthread_mutex_lock(&mu);
    if (!strcmp(op, "open-r") && main_file(a)) { hit = 1; gate_armed = 1; gate_opens = 0; }
    else if (gate_armed && !strcmp(op, "open-w") && ++gate_opens == 2) { hit = 1; gate_armed = 0; }
    long j = hit ? ++gate_no : 0;
    pthread_mutex_unlock(&mu);
    if (!hit) return;
    static int (*real_open)(const char *, int, ...) = NULL;
    static int (*real_close)(int) = NULL;
    if (!real_open) real_open = dlsym(RTLD_NEXT, "open");
    if (!real_close) real_close = dlsym(RTLD_NEXT, "close");
    char at[600], go[600];
    snprintf(at, sizeof at, "%s/%s.at.%ld", gd, tag, j);
    snprintf(go, sizeof go, "%s/%s.go.%ld", gd, tag, j);
    int fd = real_open(at, O_WRONLY | O_CREAT, 0644);
    if (fd >= 0) real_close(fd);
    for (long waited = 0; waited < 30000000L; waited += 200) {
        if (access(go, F_OK) == 0) return;
        usleep(200);
    }
}

// returns: 0 proceed normally; 1 fail with errno set; (kill-before never returns)
static int before(const char *op, const char *a, const char *b, long *my) {
    pthread_mutex_lock(&mu);
    long n = ++counter;
    pthread_mutex_unlock(&mu);
    *my = n;
    logline(n, op, a, b);
    gate(op, a, b);
    if (n == target_n()) {
        const char *m = mode();
        if (!strcmp(m, "kill-before")) { kill(getpid(), SIGKILL); pause(); }
        if (!strcmp(m, "enospc")) { errno = ENOSPC; return 1; }
        if (!strcmp(m, "eio")) { errno = EIO; return 1; }
    }
    return 0;
}
static void after(long n) {
    if (n == target_n() && !strcmp(mode(), "kill-after")) { kill(getpid(), SIGKILL); pause(); }
}

static int do_open(const char *name, int (*real)(const char *, int, mode_t), const char *path, int flags, mode_t md) {
    const char *r = rel(path);
    if (!r) return real(path, flags, md);
    long n;
    const char *op = ((flags & O_ACCMODE) == O_RDONLY) ? "open-r" : "open-w";
    if (before(op, r, NULL, &n)) return -1;
    int fd = real(path, flags, md);
    if (fd >= 0 && fd < MAXFD) {
        is_tracked[fd] = 1;
        strncpy(tracked[fd], r, sizeof tracked[fd] - 1);
        tracked[fd][sizeof tracked[fd] - 1] = 0;
    }
    after(n);
    (void)name;
    return fd;
}

static int real_open_v(const char *p, int f, mode_t m) {
    static int (*r)(const char *, int, ...) = NULL;
    if (!r) r = dlsym(RTLD_NEXT, "open");
    return r(p, f, m);
}
static int real_open64_v(const char *p, int f, mode_t m) {
    static int (*r)(const char *, int, ...) = NULL;
    if (!r) r = dlsym(RTLD_NEXT, "open64");
    return r(p, f, m);
}

int open(const char *path, int flags, ...) {
    mode_t md = 0;
    if (flags & (O_CREAT | O_TMPFILE)) { va_list ap; va_start(ap, flags); md = va_arg(ap, mode_t); va_end(ap); }
    return do_open("open", real_open_v, path, flags, md);
}
int open64(const char *path, int flags, ...) {
    mode_t md = 0;
    if (flags & (O_CREAT | O_TMPFILE)) { va_list ap; va_start(ap, flags); md = va_arg(ap, mode_t); va_end(ap); }
    return do_open("open64", real_open64_v, path, flags, md);
}
int openat(int dirfd, const char *path, int flags, ...) {
    static int (*r)(int, const char *, int, ...) = NULL;
    if (!r) r = dlsym(RTLD_NEXT, "openat");
    mode_t md = 0;
    if (flags & (O_CREAT | O_TMPFILE)) { va_list ap; va_start(ap, flags); md = va_arg(ap, mode_t); va_end(ap); }
    const char *rp = (path && path[0] == '/') ? rel(path) : NULL;
    if (!rp) return r(dirfd, path, flags, md);
    long n;
    const char *op = ((flags & O_ACCMODE) == O_RDONLY) ? "open-r" : "open-w";
    if (before(op, rp, NULL, &n)) return -1;
    int fd = r(dirfd, path, flags, md);
    if (fd >= 0 && fd < MAXFD) { is_tracked[fd] = 1; strncpy(tracked[fd], rp, sizeof tracked[fd] - 1); }
    after(n);
    return fd;
}
int openat64(int dirfd, const char *path, int flags, ...) {
    static int (*r)(int, const char *, int, ...) = NULL;
    if (!r) r = dlsym(RTLD_NEXT, "openat64");
    mode_t md = 0;
    if (flags & (O_CREAT | O_TMPFILE)) { va_list ap; va_start(ap, flags); md = va_arg(ap, mode_t); va_end(ap); }
    const char *rp = (path && path[0] == '/') ? rel(path) : NULL;
    if (!rp) return r(dirfd, path, flags, md);
    long n;
    const char *op = ((flags & O_ACCMODE) == O_RDONLY) ? "open-r" : "open-w";
    if (before(op, rp, NULL, &n)) return -1;
    int fd = r(dirfd, path, flags, md);
    if (fd >= 0 && fd < MAXFD) { is_tracked[fd] = 1; strncpy(tracked[fd], rp, sizeof tracked[fd] - 1); }
    after(n);
    return fd;
}

ssize_t write(int fd, const void *buf, size_t count) {
    static ssize_t (*r)(int, const void *, size_t) = NULL;
    if (!r) r = dlsym(RTLD_NEXT, "write");
    if (fd < 0 || fd >= MAXFD || !is_tracked[fd]) return r(fd, buf, count);
    long n;
    if (before("write", tracked[fd], NULL, &n)) return -1;
    ssize_t res = r(fd, buf, count);
    after(n);
    return res;
}

int close(int fd) {
    static int (*r)(int) = NULL;
    if (!r) r = dlsym(RTLD_NEXT, "close");
    if (fd < 0 || fd >= MAXFD || !is_tracked[fd]) return r(fd);
    long n;
    char name[128];
    strncpy(name, tracked[fd], sizeof name);
    is_tracked[fd] = 0;
    // a failing close still releases the descriptor
    if (before("close", name, NULL, &n)) { int e = errno; r(fd); errno = e; return -1; }
    int res = r(fd);
    after(n);
    return res;
}

int unlink(const char *path) {
    static int (*r)(const char *) = NULL;
    if (!r) r = dlsym(RTLD_NEXT, "unlink");
    const char *rp = rel(path);
    if (!rp) return r(path);
    long n;
    if (before("unlink", rp, NULL, &n)) return -1;
    int res = r(path);
    after(n);
    return res;
}
int unlinkat(int dirfd, const char *path, int flags) {
    static int (*r)(int, const char *, int) = NULL;
    if (!r) r = dlsym(RTLD_NEXT, "unlinkat");
    const char *rp = (path && path[0] == '/') ? rel(path) : NULL;
    if (!rp) return r(dirfd, path, flags);
    long n;
    if (before("unlink", rp, NULL, &n)) return -1;
    int res = r(dirfd, path, flags);
    after(n);
    return res;
}

int rename(const char *a, const char *b) {
    static int (*r)(const char *, const char *) = NULL;
    if (!r) r = dlsym(RTLD_NEXT, "rename");
    const char *ra = rel(a), *rb = rel(b);
    if (!ra && !rb) return r(a, b);
    long n;
    char ca[128] = "-", cb[128] = "-";
    if (ra) strncpy(ca, ra, sizeof ca - 1);
    if (rb) strncpy(cb, rb, sizeof cb - 1);
    if (before("rename", ca, cb, &n)) return -1;
    int res = r(a, b);
    after(n);
    return res;
}
int renameat(int ad, const char *a, int bd, const char *b) {
    static int (*r)(int, const char *, int, const char *) = NULL;
    if (!r) r = dlsym(RTLD_NEXT, "renameat");
    const char *ra = (a && a[0] == '/') ? rel(a) : NULL, *rb = (b && b[0] == '/') ? rel(b) : NULL;
    if (!ra && !rb) return r(ad, a, bd, b);
    long n;
    char ca[128] = "-", cb[128] = "-";
    if (ra) strncpy(ca, ra, sizeof ca - 1);
    if (rb) strncpy(cb, rb, sizeof cb - 1);
    if (before("rename", ca, cb, &n)) return -1;
    int res = r(ad, a, bd, b);
    after(n);
    return res;
}
int renameat2(int ad, const char *a, int bd, const char *b, unsigned int flags) {
    static int (*r)(int, const char *, int, const char *, unsigned int) = NULL;
    if (!r) r = dlsym(RTLD_NEXT, "renameat2");
    const char *ra = (a && a[0] == '/') ? rel(a) : NULL, *rb = (b && b[0] == '/') ? rel(b) : NULL;
    if ((!ra && !rb) || !r) { if (r) return r(ad, a, bd, b, flags); errno = ENOSYS; return -1; }
    long n;
    char ca[128] = "-", cb[128] = "-";
    if (ra) strncpy(ca, ra, sizeof ca - 1);
    if (rb) strncpy(cb, rb, sizeof cb - 1);
    if (before("rename", ca, cb, &n)) return -1;
    int res = r(ad, a, bd, b, flags);
    after(n);
    return res;
}
